#!/usr/bin/env python3
"""Baseline with hooks OFF: fresh out-of-tree build of /repo exactly like the pinned one
(cmake -G Ninja -DTROMPELOEIL_BUILD_TESTS=ON, C++14), run self_test -r junit, and compare the
passing test names with /root/.vp/BASELINE.json. Exit 0 iff every baseline test passes."""
import json, os, re, shutil, subprocess, sys, tempfile, xml.etree.ElementTree as ET

REPO = os.environ.get('VERIF_REPO', '/repo')
BASE = '/root/.vp/BASELINE.json'


def main():
    d = tempfile.mkdtemp(prefix='trompeloeil-baseline-', dir=os.environ.get('TMPDIR', '/var/tmp'))
    try:
        r = subprocess.run(['cmake', '-G', 'Ninja', '-S', REPO, '-B', d, '-DTROMPELOEIL_BUILD_TESTS=ON',
                            '-DCMAKE_BUILD_TYPE=Debug'], stdout=subprocess.PIPE, stderr=subprocess.STDOUT, text=True)
        if r.returncode:
            print(r.stdout[-3000:]); print('baseline: configure failed'); return 2
        r = subprocess.run(['cmake', '--build', d, '--target', 'self_test', '-j', str(os.cpu_count() or 4)],
                           stdout=subprocess.PIPE, stderr=subprocess.STDOUT, text=True)
        if r.returncode:
            print(r.stdout[-6000:]); print('baseline: build failed'); return 1
        exe = os.path.join(d, 'test', 'self_test')
        r = subprocess.run([exe, '-r', 'junit'], stdout=subprocess.PIPE, stderr=subprocess.PIPE, text=True, cwd=d)
        root = ET.fromstring(r.stdout)
        passed, failed = set(), set()
        for tc in root.iter('testcase'):
            name = '%s::%s' % (tc.get('classname'), tc.get('name'))
            bad = any(ch.tag in ('failure', 'error') for ch in tc)
            (failed if bad else passed).add(name)
        passed -= failed
        want = set(json.load(open(BASE))['stable_pass']) if os.path.exists(BASE) else None
        print('baseline: %d passed, %d failed' % (len(passed), len(failed)))
        for f in sorted(failed)[:20]:
            print('  FAILED', f)
        if want is not None:
            missing = sorted(want - passed)
            print('baseline: %d of %d pinned tests pass' % (len(want) - len(missing), len(want)))
            for m in missing[:20]:
                print('  MISSING', m)
            return 1 if missing else 0
        return 1 if failed else 0
    finally:
        shutil.rmtree(d, ignore_errors=True)


if __name__ == '__main__':
    sys.exit(main())
