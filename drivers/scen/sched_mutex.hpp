// Scheduling recursive mutex for the documented customisation point
// TROMPELOEIL_CUSTOM_RECURSIVE_MUTEX. Two modes:
//   free    : behaves like a recursive mutex, logs the order of outermost acquisitions;
//   replay  : deterministic scheduler - a thread proceeds into the library's critical section only
//             when granted; decisions are taken when no thread holds the lock and every live thread
//             either waits for it or has finished, and follow a prescribed schedule (then the lowest
//             waiting thread). Every decision is logged with the set of waiting threads, so that all
//             lock-acquisition orders of a tiny program can be enumerated by replay (stateless DFS).
#ifndef VERIF_SCHED_MUTEX_HPP
#define VERIF_SCHED_MUTEX_HPP
#include <condition_variable>
#include <mutex>
#include <string>
#include <vector>

namespace sched
{
  struct State
  {
    std::mutex mx;
    std::condition_variable cv;
    bool replay = false;
    int nthreads = 0;
    std::vector<int> status;      // 0 running, 1 waiting for the lock, 2 finished, 3 holds the lock
    int granted = -1;
    int holder = -1;
    std::vector<int> schedule;    // prescribed choices (thread indices)
    size_t pos = 0;
    std::string log;              // "D <waiting bitmask> <chosen>;" per decision
    std::recursive_mutex real;    // used in free mode and by threads outside any trial (main thread)
  };
  inline State& st() { static State s; return s; }
  inline int& self() { static thread_local int idx = -1; return idx; }
  inline int& depth() { static thread_local int d = 0; return d; }

  inline void begin_trial(int nthreads, std::vector<int> const& schedule)
  {
    State& s = st();
    std::lock_guard<std::mutex> g(s.mx);
    s.replay = true;
    s.nthreads = nthreads;
    s.status.assign(static_cast<size_t>(nthreads), 0);
    s.granted = -1; s.holder = -1;
    s.schedule = schedule; s.pos = 0;
    s.log.clear();
  }
  inline void end_trial() { State& s = st(); std::lock_guard<std::mutex> g(s.mx); s.replay = false; }

  // called with s.mx held: take a decision if the system is quiescent
  inline void decide(State& s)
  {
    if (!s.replay || s.holder != -1 || s.granted != -1) return;
    unsigned waiting = 0;
    for (int i = 0; i < s.nthreads; ++i)
    {
      if (s.status[static_cast<size_t>(i)] == 0) return;   // somebody still runs outside the lock
      if (s.status[static_cast<size_t>(i)] == 1) waiting |= 1U << i;
    }
    if (!waiting) return;
    int choice = -1;
    if (s.pos < s.schedule.size())
    {
      int want = s.schedule[s.pos];
      if (want >= 0 && want < s.nthreads && (waiting >> want) & 1U) choice = want;
    }
    if (choice < 0) for (int i = 0; i < s.nthreads; ++i) if ((waiting >> i) & 1U) { choice = i; break; }
    ++s.pos;
    s.log += "D " + std::to_string(waiting) + " " + std::to_string(choice) + ";";
    s.granted = choice;
    s.cv.notify_all();
  }

  inline void thread_begin(int idx) { self() = idx; depth() = 0; }
  inline void thread_end()
  {
    State& s = st();
    std::unique_lock<std::mutex> g(s.mx);
    if (self() >= 0 && s.replay) { s.status[static_cast<size_t>(self())] = 2; decide(s); }
    self() = -1;
  }

  class mutex : public trompeloeil::custom_recursive_mutex
  {
  public:
    void lock() override
    {
      State& s = st();
      if (self() < 0 || !s.replay) { s.real.lock(); return; }
      if (depth()++ > 0) return;
      std::unique_lock<std::mutex> g(s.mx);
      s.status[static_cast<size_t>(self())] = 1;
      decide(s);
      s.cv.wait(g, [&] { return s.granted == self(); });
      s.granted = -1;
      s.holder = self();
      s.status[static_cast<size_t>(self())] = 3;
    }
    void unlock() override
    {
      State& s = st();
      if (self() < 0 || !s.replay) { s.real.unlock(); return; }
      if (--depth() > 0) return;
      std::unique_lock<std::mutex> g(s.mx);
      s.holder = -1;
      s.status[static_cast<size_t>(self())] = 0;
      // the next decision is taken when this thread blocks again or finishes
    }
  };
}

namespace trompeloeil
{
  std::unique_ptr<custom_recursive_mutex> create_custom_recursive_mutex()
  {
    return std::unique_ptr<custom_recursive_mutex>(new sched::mutex);
  }
}
#endif
