// Scenario driver: executes operation histories against the real library and logs every
// observable at the public boundary. It has no expectations about outcomes.
#include "harness.hpp"
#include <set>
#include <trompeloeil/stream_tracer.hpp>
#include <cstdarg>
#include <cstring>
#include <iostream>
#include <map>
#include <unistd.h>

#if defined(__SANITIZE_ADDRESS__)
#include <sanitizer/lsan_interface.h>
#define HAVE_LSAN 1
#elif defined(__has_feature)
#if __has_feature(address_sanitizer)
#include <sanitizer/lsan_interface.h>
#define HAVE_LSAN 1
#endif
#endif

std::vector<ShapeEntry>& shape_registry() { static std::vector<ShapeEntry> r; return r; }
std::vector<MonFn>& mon_registry() { static std::vector<MonFn> r; return r; }

static bool g_unbuf = false;
static std::string g_out;

static void flush_out()
{
  size_t off = 0;
  while (off < g_out.size())
  {
    ssize_t n = ::write(1, g_out.data() + off, g_out.size() - off);
    if (n <= 0) std::_Exit(97);
    off += static_cast<size_t>(n);
  }
  g_out.clear();
}

void H::emit(char const* fmt, ...)
{
  char buf[512];
  va_list ap;
  va_start(ap, fmt);
  int n = vsnprintf(buf, sizeof buf, fmt, ap);
  va_end(ap);
  if (n < 0) std::_Exit(98);
  if (static_cast<size_t>(n) >= sizeof buf)
  {
    std::vector<char> big(static_cast<size_t>(n) + 1);
    va_start(ap, fmt);
    vsnprintf(big.data(), big.size(), fmt, ap);
    va_end(ap);
    g_out.append(big.data(), static_cast<size_t>(n));
  }
  else
  {
    g_out.append(buf, static_cast<size_t>(n));
  }
  g_out.push_back('\n');
  if (g_unbuf || g_out.size() > (1U << 16)) flush_out();
}

std::string H::esc(std::string const& s)
{
  std::string r;
  r.reserve(s.size() + 8);
  for (unsigned char c : s)
  {
    if (c == '\\') r += "\\\\";
    else if (c == '\n') r += "\\n";
    else if (c == ' ') r += "\\s";
    else if (c < 32 || c > 126) { char b[8]; snprintf(b, sizeof b, "\\x%02x", c); r += b; }
    else r.push_back(static_cast<char>(c));
  }
  if (r.empty()) r = "\\e";
  return r;
}

int H::sidx(std::string const& s)
{
  for (int i = 0; i < 4; ++i) if (s == STRDOM[i]) return i;
  return 31;
}

static int g_slots[8];
int& H::slot(int i) { return g_slots[i & 7]; }

// ---- reporters ---------------------------------------------------------------------------
struct Rep
{
  char tag;
  void operator()(trompeloeil::severity s, char const* file, unsigned long line, std::string const& msg) const
  {
    H::emit("R %c %c %s %lu %s", tag, s == trompeloeil::severity::fatal ? 'F' : 'N',
            H::esc(file ? file : "<null>").c_str(), line, H::esc(msg).c_str());
    if (s == trompeloeil::severity::fatal) throw Fatal{};
  }
};
struct OkRep
{
  char tag;
  void operator()(char const* msg) const { H::emit("K %c %s", tag, H::esc(msg ? msg : "<null>").c_str()); }
};

// the same reporters as plain functions (installed as function pointers)
template <char TAG> static void rep_fn(trompeloeil::severity s, char const* file, unsigned long line, std::string const& msg) { Rep{TAG}(s, file, line, msg); }
template <char TAG> static void ok_fn(char const* msg) { OkRep{TAG}(msg); }

// ---- tracers -----------------------------------------------------------------------------
struct HTracer : trompeloeil::tracer
{
  explicit HTracer(int id_) : id(id_) {}
  void trace(char const* file, unsigned long line, std::string const& call) override
  {
    H::emit("T %d %s %lu %s", id, H::esc(file ? file : "<null>").c_str(), line, H::esc(call).c_str());
  }
  int id;
};
struct STracer
{
  // redirect: the stream's buffer is exchanged after the tracer was constructed on the stream; the tracer
  // writes to the *stream*, so records must arrive in the new buffer
  explicit STracer(int id_, bool redirect = false) : id(id_), tr(os) { if (redirect) { std::ios& b = os; saved = b.rdbuf(&other); } }
  ~STracer() { if (saved) { std::ios& b = os; b.rdbuf(saved); } }
  int id;
  std::ostringstream os;
  std::stringbuf other;
  std::streambuf* saved = nullptr;
  trompeloeil::stream_tracer tr;
  void drain()
  {
    std::string s = saved ? other.str() : os.str();
    if (!s.empty())
    {
      H::emit("TS %d %s", id, H::esc(s).c_str());
      if (saved) other.str(""); else os.str("");
    }
  }
};
struct TracerRec { int id; HTracer* h; STracer* s; };

// ---- entities ------------------------------------------------------------------------------
struct Obj { char kind = 0; MockM* m = nullptr; MockN* n = nullptr; WatchM* wm = nullptr; WatchP* wp = nullptr; };
struct ExpRec { exp_ptr e; std::unique_ptr<Params> p; };

static std::map<int, Obj> g_objs;
static std::map<int, std::unique_ptr<trompeloeil::sequence>> g_seqs;
static std::map<int, ExpRec> g_exps;
static std::vector<TracerRec> g_tracers;
static bool g_autoq = false;
static std::map<int, std::vector<std::string>> g_deferred;   // operations that a side effect (mode 6) will carry out, once
static std::set<int> g_seq_husks;   // moved-from sequence objects: nothing may be asked of them

static MockM* as_m(Obj& o) { return o.kind == 'M' ? o.m : (o.kind == 'W' ? static_cast<MockM*>(o.wm) : nullptr); }

static void bad(char const* what, std::string const& line)
{
  H::emit("! bad-op %s %s", what, H::esc(line).c_str());
  flush_out();
  std::_Exit(96);
}

static void do_call(int oid, std::string const& fn, int a, int b)
{
  auto it = g_objs.find(oid);
  if (it == g_objs.end()) { H::emit("V noobj"); return; }
  Obj& o = it->second;
  try
  {
    if (o.kind == 'N')
    {
      if (fn == "f") { int rv = o.n->f(a); H::emit("V ret %d", rv); }
      else if (fn == "v") { o.n->v(a); H::emit("V void"); }
      else H::emit("V nofn");
      return;
    }
    MockM* m = as_m(o);
    if (!m) { H::emit("V nofn"); return; }
    if (fn == "f") { int rv = m->f(a); H::emit("V ret %d", rv); }
    else if (fn == "v") { m->v(a); H::emit("V void"); }
    else if (fn == "gi") { int rv = m->g(a); H::emit("V ret %d", rv); }
    else if (fn == "gs") { int rv = m->g(sval(a)); H::emit("V ret %d", rv); }
    else if (fn == "h") { int rv = m->h(a, b); H::emit("V ret %d", rv); }
    else if (fn == "c") { MockM const* cm = m; int rv = cm->c(a); H::emit("V ret %d", rv); }
    else if (fn == "r")
    {
      int x = a;
      int& rr = m->r(x);
      int where = -1;
      for (int i = 0; i < 8; ++i) if (&rr == &H::slot(i)) where = i;
      if (&rr == &x) where = 100;
      H::emit("V ref %d %d %d", rr, where, x);
    }
    else H::emit("V nofn");
  }
  catch (Fatal const&) { H::emit("V fatal"); }
  catch (SeThrow const& e) { H::emit("V exc S %d %d", e.id, e.idx); }
  catch (ThrowInt const& e) { H::emit("V exc I %d %d", e.id, e.arg); }
  catch (ThrowStd const& e) { H::emit("V exc P %d %s %d", e.id, H::esc(e.what()).c_str(), e.arg); }
  catch (std::exception const& e) { H::emit("V exc E %s", H::esc(e.what()).c_str()); }
  catch (...) { H::emit("V exc U"); }
}

void H::nested(int obj, int arg)
{
  H::emit("N{ %d %d", obj, arg);
  auto it = g_objs.find(obj);
  if (it == g_objs.end()) { H::emit("N} noobj"); return; }
  MockM* m = as_m(it->second);
  struct Close { ~Close() { H::emit("N}"); } } close;
  if (m) m->v(arg); else if (it->second.kind == 'N') it->second.n->v(arg);
}

void H::nestedf(int obj, int arg)
{
  H::emit("N{ %d %d", obj, arg);
  auto it = g_objs.find(obj);
  if (it == g_objs.end()) { H::emit("N} noobj"); return; }
  MockM* m = as_m(it->second);
  struct Close { ~Close() { H::emit("N}"); } } close;
  if (m) (void)m->f(arg); else if (it->second.kind == 'N') (void)it->second.n->f(arg);
}

void H::destroy(int obj)
{
  // from inside a side effect: the object is destroyed while one of its mock functions is executing
  H::emit("D{ %d", obj);
  struct Close { ~Close() { H::emit("D}"); } } close;
  auto it = g_objs.find(obj);
  if (it == g_objs.end()) return;
  Obj o = it->second;
  g_objs.erase(it);
  delete o.m; delete o.n; delete o.wm; delete o.wp;
}

static void autoq()
{
  for (auto& kv : g_exps)
  {
    if (!kv.second.e) continue;
    H::emit("Q %d %d %d", kv.first, kv.second.e->is_satisfied() ? 1 : 0, kv.second.e->is_saturated() ? 1 : 0);
  }
  for (auto& kv : g_seqs)
    if (!g_seq_husks.count(kv.first)) H::emit("QS %d %d", kv.first, kv.second->is_completed() ? 1 : 0);
}

static void drain_tracers()
{
  for (auto& t : g_tracers) if (t.s) t.s->drain();
}

static void install(char tag, int arity, bool probe, int form = 0)
{
  if (form == 1 && arity == 2 && (tag == 'A' || tag == 'B' || tag == 'C'))
  {
    // both reporters given as pointers to plain functions
    using RF = void (*)(trompeloeil::severity, char const*, unsigned long, std::string const&);
    using OF = void (*)(char const*);
    RF rf = tag == 'A' ? &rep_fn<'A'> : tag == 'B' ? &rep_fn<'B'> : &rep_fn<'C'>;
    OF of = tag == 'A' ? &ok_fn<'A'> : tag == 'B' ? &ok_fn<'B'> : &ok_fn<'C'>;
    auto prev = trompeloeil::set_reporter(rf, of);
    if (probe)
    {
      H::emit("P{");
      try { prev.first(trompeloeil::severity::nonfatal, "probe", 0UL, "probe"); }
      catch (trompeloeil::expectation_violation const&) { H::emit("P default"); }
      prev.second("probe");
      H::emit("P}");
    }
    return;
  }
  if (arity == 1)
  {
    auto prev = trompeloeil::set_reporter(Rep{tag});
    if (probe)
    {
      H::emit("P{");
      try { prev(trompeloeil::severity::nonfatal, "probe", 0UL, "probe"); }
      catch (trompeloeil::expectation_violation const&) { H::emit("P default"); }
      H::emit("P}");
    }
  }
  else
  {
    auto prev = trompeloeil::set_reporter(Rep{tag}, OkRep{tag});
    if (probe)
    {
      H::emit("P{");
      try { prev.first(trompeloeil::severity::nonfatal, "probe", 0UL, "probe"); }
      catch (trompeloeil::expectation_violation const&) { H::emit("P default"); }
      prev.second("probe");
      H::emit("P}");
    }
  }
}

static void teardown_leftovers()
{
  size_t n = g_tracers.size() + g_exps.size() + g_objs.size() + g_seqs.size();
  if (n) H::emit("X leftover %zu", n);
  while (!g_tracers.empty())
  {
    auto t = g_tracers.back(); g_tracers.pop_back();
    if (t.s) t.s->drain();
    delete t.h; delete t.s;
  }
  for (auto it = g_exps.rbegin(); it != g_exps.rend(); ++it) it->second.e.reset();
  g_exps.clear();
  for (auto& kv : g_objs) { delete kv.second.m; delete kv.second.n; delete kv.second.wm; delete kv.second.wp; }
  g_objs.clear();
  g_seqs.clear(); g_seq_husks.clear(); g_deferred.clear();
}

static std::vector<std::string> split(std::string const& s)
{
  std::vector<std::string> v;
  std::istringstream is(s);
  std::string t;
  while (is >> t) v.push_back(t);
  return v;
}

static std::map<std::pair<int,int>, ShapeEntry> shapes;
static std::map<int, MonFn> mons;

// one operation of the scenario language; also entered from inside a side effect (H::deferred)
static void exec_op(std::vector<std::string> const& t, std::string const& line)
{
  std::string const& op = t[0];
  auto I = [&](size_t i) -> int { if (i >= t.size()) bad("arity", line); return std::atoi(t[i].c_str()); };
  if (op == "defer")
  {
    // defer K <operation...> : nothing happens now
    g_deferred[I(1)] = std::vector<std::string>(t.begin() + 2, t.end());
  }
  else if (op == "obj")
  {
    Obj o; o.kind = t.at(2)[0];
    switch (o.kind)
    {
    case 'M': o.m = new MockM; break;
    case 'N': o.n = new MockN; break;
    case 'W': o.wm = new WatchM; break;
    case 'P': o.wp = new WatchP(I(1)); break;
    default: bad("kind", line);
    }
    g_objs[I(1)] = o;
  }
  else if (op == "mvobj" || op == "cpobj" || op == "cpobjc")
  {
    Obj& src = g_objs.at(I(2));
    Obj o; o.kind = src.kind;
    bool mv = op == "mvobj";
    bool from_const = op == "cpobjc";   // a const source selects the implicit copy constructor, not the forwarding one
    switch (src.kind)
    {
    case 'M': if (!mv) bad("cp M", line); o.m = new MockM(std::move(*src.m)); break;
    case 'W': if (!mv) bad("cp W", line); o.wm = new WatchM(std::move(*src.wm)); break;
    case 'P': o.wp = mv ? new WatchP(std::move(*src.wp))
                        : (from_const ? new WatchP(*static_cast<WatchP const*>(src.wp)) : new WatchP(*src.wp)); break;
    default: bad("mv kind", line);
    }
    g_objs[I(1)] = o;
  }
  else if (op == "asobj" || op == "asmv")
  {
    Obj& dst = g_objs.at(I(1));
    Obj& src = g_objs.at(I(2));
    if (dst.kind != 'P' || src.kind != 'P') bad("assign kind", line);
    if (op == "asobj") *dst.wp = *src.wp; else *dst.wp = std::move(*src.wp);
    H::emit("A %d", dst.wp->payload);
  }
  else if (op == "rmobj")
  {
    auto it = g_objs.find(I(1));
    if (it == g_objs.end()) bad("rmobj", line);
    Obj o = it->second;
    g_objs.erase(it);
    delete o.m; delete o.n; delete o.wm; delete o.wp;
  }
  else if (op == "rmobjx")
  {
    // the object is destroyed during stack unwinding (a local going out of scope by exception)
    auto it = g_objs.find(I(1));
    if (it == g_objs.end()) bad("rmobjx", line);
    Obj o = it->second;
    g_objs.erase(it);
    struct Guard { Obj* o; ~Guard() { delete o->m; delete o->n; delete o->wm; delete o->wp; } };
    try { Guard g{&o}; throw 43; } catch (int) {}
  }
  else if (op == "seq") { g_seqs[I(1)] = std::make_unique<trompeloeil::sequence>(); }
  else if (op == "rmseq") { if (!g_seqs.erase(I(1))) bad("rmseq", line); g_seq_husks.erase(I(1)); }
  else if (op == "mvseq")
  {
    // mvseq new old : sequence new(std::move(old)); old stays as a moved-from object
    auto it = g_seqs.find(I(2));
    if (it == g_seqs.end() || g_seqs.count(I(1))) bad("mvseq", line);
    g_seqs[I(1)] = std::make_unique<trompeloeil::sequence>(std::move(*it->second));
    g_seq_husks.insert(I(2));
  }
  else if (op == "asseq")
  {
    // asseq dst src : dst = std::move(src)
    auto d = g_seqs.find(I(1)); auto s = g_seqs.find(I(2));
    if (d == g_seqs.end() || s == g_seqs.end() || I(1) == I(2)) bad("asseq", line);
    *d->second = std::move(*s->second);
    g_seq_husks.erase(I(1));
    g_seq_husks.insert(I(2));
  }
  else if (op == "qseq") { H::emit("QS %d %d", I(1), g_seqs.at(I(1))->is_completed() ? 1 : 0); }
  else if (op == "exp")
  {
    // exp e shape slot obj key=val...
    int e = I(1);
    auto sit = shapes.find({I(2), I(3)});
    if (sit == shapes.end()) bad("shape", line);
    Obj& o = g_objs.at(I(4));
    auto p = std::make_unique<Params>();
    p->id = e;
    for (size_t i = 5; i < t.size(); ++i)
    {
      auto eq = t[i].find('=');
      if (eq == std::string::npos) bad("kv", line);
      std::string k = t[i].substr(0, eq);
      long long v = std::atoll(t[i].c_str() + eq + 1);
      if (k == "val") p->val = static_cast<int>(v);
      else if (k == "mask") p->mask = static_cast<unsigned>(v);
      else if (k == "val2") p->val2 = static_cast<int>(v);
      else if (k == "mask2") p->mask2 = static_cast<unsigned>(v);
      else if (k == "w0") p->wmask[0] = static_cast<unsigned>(v);
      else if (k == "w1") p->wmask[1] = static_cast<unsigned>(v);
      else if (k == "w2") p->wmask[2] = static_cast<unsigned>(v);
      else if (k == "se0") p->se[0] = static_cast<int>(v);
      else if (k == "se1") p->se[1] = static_cast<int>(v);
      else if (k == "se2") p->se[2] = static_cast<int>(v);
      else if (k == "nobj") p->nest_obj = static_cast<int>(v);
      else if (k == "narg") p->nest_arg = static_cast<int>(v);
      else if (k == "nfn") p->nest_fn = static_cast<int>(v);
      else if (k == "dop") p->dop = static_cast<int>(v);
      else if (k == "lo") p->lo = static_cast<unsigned long>(v);
      else if (k == "hi") p->hi = v < 0 ? ~0UL : static_cast<unsigned long>(v);
      else if (k == "s0") p->seq[0] = g_seqs.at(static_cast<int>(v)).get();
      else if (k == "s1") p->seq[1] = g_seqs.at(static_cast<int>(v)).get();
      else if (k == "slot") p->slot = static_cast<int>(v);
      else bad("key", line);
    }
    void* target = nullptr;
    if (sit->second.cls == 'N') { if (o.kind != 'N') bad("cls", line); target = o.n; }
    else { target = as_m(o); if (!target) bad("cls", line); }
    try
    {
      exp_ptr x = sit->second.fn(target, *p);
      g_exps[e] = ExpRec{std::move(x), std::move(p)};
      H::emit("M ok");
    }
    catch (std::logic_error const& ex) { H::emit("M logic %s", H::esc(ex.what()).c_str()); }
    catch (Fatal const&) { H::emit("M fatal"); }
  }
  else if (op == "mon")
  {
    // mon e site obj [s0 [s1]]
    int e = I(1);
    auto mit = mons.find(I(2));
    if (mit == mons.end()) bad("site", line);
    Obj& o = g_objs.at(I(3));
    auto p = std::make_unique<Params>();
    p->id = e;
    if (t.size() > 4) p->seq[0] = g_seqs.at(I(4)).get();
    if (t.size() > 5) p->seq[1] = g_seqs.at(I(5)).get();
    void* target = nullptr;
    if (mit->second.cls == 'W') { if (o.kind != 'W') bad("mon cls", line); target = o.wm; }
    else { if (o.kind != 'P') bad("mon cls", line); target = o.wp; }
    exp_ptr x = mit->second.fn(target, *p);
    g_exps[e] = ExpRec{std::move(x), std::move(p)};
    H::emit("M ok");
  }
  else if (op == "rmexp")
  {
    auto it = g_exps.find(I(1));
    if (it == g_exps.end()) bad("rmexp", line);
    it->second.e.reset();
    g_exps.erase(it);
  }
  else if (op == "rmexpx")
  {
    // the expectation's lifetime ends during stack unwinding (scope exit by exception)
    auto it = g_exps.find(I(1));
    if (it == g_exps.end()) bad("rmexpx", line);
    struct Guard { exp_ptr* p; ~Guard() { p->reset(); } };
    try { Guard g{&it->second.e}; throw 42; } catch (int) {}
    g_exps.erase(it);
  }
  else if (op == "rmexpc")
  {
    // the expectation's lifetime ends inside an exception handler (clean-up in a catch block)
    auto it = g_exps.find(I(1));
    if (it == g_exps.end()) bad("rmexpc", line);
    try { throw 45; } catch (int) { it->second.e.reset(); }
    g_exps.erase(it);
  }
  else if (op == "rmobjc")
  {
    auto it = g_objs.find(I(1));
    if (it == g_objs.end()) bad("rmobjc", line);
    Obj o = it->second;
    g_objs.erase(it);
    try { throw 46; } catch (int) { delete o.m; delete o.n; delete o.wm; delete o.wp; }
  }
  else if (op == "qexp")
  {
    auto& r = g_exps.at(I(1));
    H::emit("Q %d %d %d", I(1), r.e->is_satisfied() ? 1 : 0, r.e->is_saturated() ? 1 : 0);
  }
  else if (op == "call") { do_call(I(1), t.at(2), I(3), t.size() > 4 ? I(4) : 0); }
  else if (op == "callx")
  {
    // the same call, issued from inside an exception handler (std::current_exception() is non-null)
    try { throw 7; } catch (int) { do_call(I(1), t.at(2), I(3), t.size() > 4 ? I(4) : 0); }
  }
  else if (op == "callu")
  {
    // the same call, issued from a destructor that runs during stack unwinding of an unrelated exception. Only
    // generated for calls that are accepted and return normally (anything else would have to throw out of a destructor).
    struct Guard { int o; std::string fn; int a; int b; ~Guard() { do_call(o, fn, a, b); } };
    try { Guard g{I(1), t.at(2), I(3), t.size() > 4 ? I(4) : 0}; throw 47; } catch (int) {}
  }
  else if (op == "tr")
  {
    TracerRec r{I(1), nullptr, nullptr};
    if (I(2) == 0) r.h = new HTracer(r.id); else r.s = new STracer(r.id, I(2) == 2);
    g_tracers.push_back(r);
  }
  else if (op == "rmtr")
  {
    if (g_tracers.empty() || g_tracers.back().id != I(1)) bad("tracer LIFO", line);
    auto r = g_tracers.back(); g_tracers.pop_back();
    if (r.s) r.s->drain();
    delete r.h; delete r.s;
  }
  else if (op == "rep") { install(t.at(1)[0], I(2), true, t.size() > 3 ? I(3) : 0); }
  else if (op == "setp")
  {
    // setp e key val : mutate the live Params of an expectation (seen by LR_ clauses only)
    auto& r = g_exps.at(I(1));
    std::string const& k = t.at(2);
    if (k == "w0") r.p->wmask[0] = static_cast<unsigned>(I(3));
    else if (k == "w1") r.p->wmask[1] = static_cast<unsigned>(I(3));
    else if (k == "w2") r.p->wmask[2] = static_cast<unsigned>(I(3));
    else bad("setp", line);
  }
  else bad("op", line);
}

void H::deferred(int k)
{
  auto it = g_deferred.find(k);
  if (it == g_deferred.end()) return;       // already carried out by an earlier call
  std::vector<std::string> t = it->second;
  g_deferred.erase(it);
  std::string line;
  for (auto& x : t) { line += x; line += ' '; }
  H::emit("D{ %d", -k);
  struct Close { ~Close() { H::emit("D}"); } } close;
  exec_op(t, line);
}

int main()
{
  g_unbuf = std::getenv("VERIF_UNBUF") != nullptr;
  install('A', 2, false);
  for (auto& s : shape_registry()) shapes[{s.shape, s.slot}] = s;
  for (auto& m : mon_registry()) mons[m.site] = m;

  std::string line;
  long opno = 0;
  while (std::getline(std::cin, line))
  {
    auto t = split(line);
    if (t.empty()) continue;
    std::string const& op = t[0];
    auto I = [&](size_t i) -> int { if (i >= t.size()) bad("arity", line); return std::atoi(t[i].c_str()); };
    if (op == "S")
    {
      g_autoq = t.size() > 2 && I(2) != 0;
      opno = 0;
      install('A', 2, false);
      for (auto& s : g_slots) s = 0;
      H::emit("S %d", I(1));
      flush_out();
      continue;
    }
    if (op == "E")
    {
      teardown_leftovers();
#ifdef HAVE_LSAN
      if (t.size() > 1 && I(1) != 0) { int l = __lsan_do_recoverable_leak_check(); H::emit("L %d", l); }
#endif
      H::emit("E");
      flush_out();
      continue;
    }
    H::emit("B %ld", opno++);
    exec_op(t, line);
    drain_tracers();
    if (g_autoq) autoq();
    H::emit("F");
  }
  flush_out();
  return 0;
}
