// Multi-threaded scenario driver (C12). Trials are read from stdin; every trial has a
// single-threaded prologue, N concurrently running thread programs and a single-threaded
// epilogue. Every operation is recorded at the client boundary with call / return
// timestamps (relaxed atomic counter: no happens-before edge that could hide a race from
// ThreadSanitizer) and its complete observable result. The harness uses no locks of its own
// while the threads run: entities live in fixed tables and every slot is written by exactly
// one thread.
#include "harness.hpp"
#include <trompeloeil/stream_tracer.hpp>
#include <sstream>
#include <atomic>
#include <cstdarg>
#include <cstring>
#include <iostream>
#include <map>
#include <thread>
#include <unistd.h>

std::vector<ShapeEntry>& shape_registry() { static std::vector<ShapeEntry> r; return r; }
std::vector<MonFn>& mon_registry() { static std::vector<MonFn> r; return r; }

#ifdef TROMPELOEIL_CUSTOM_RECURSIVE_MUTEX
#include "sched_mutex.hpp"
#endif

static thread_local std::string* t_log = nullptr;
static std::string g_main_log;
static std::atomic<unsigned long> g_clock{0};

static unsigned long now() { return g_clock.fetch_add(1, std::memory_order_relaxed); }

void H::emit(char const* fmt, ...)
{
  char buf[1024];
  va_list ap;
  va_start(ap, fmt);
  int n = vsnprintf(buf, sizeof buf, fmt, ap);
  va_end(ap);
  std::string* log = t_log ? t_log : &g_main_log;
  if (n < 0) std::_Exit(98);
  if (static_cast<size_t>(n) >= sizeof buf)
  {
    std::vector<char> big(static_cast<size_t>(n) + 1);
    va_start(ap, fmt);
    vsnprintf(big.data(), big.size(), fmt, ap);
    va_end(ap);
    log->append(big.data(), static_cast<size_t>(n));
  }
  else log->append(buf, static_cast<size_t>(n));
  log->push_back('\n');
}

std::string H::esc(std::string const& s)
{
  std::string r;
  for (unsigned char c : s)
  {
    if (c == '\\') r += "\\\\";
    else if (c == '\n') r += "\\n";
    else if (c == ' ') r += "\\s";
    else if (c < 32 || c > 126) { char b[8]; snprintf(b, sizeof b, "\\x%02x", c); r += b; }
    else r.push_back(static_cast<char>(c));
  }
  if (r.empty()) r = "\\e";
  return r;
}

int H::sidx(std::string const& s)
{
  for (int i = 0; i < 4; ++i) if (s == STRDOM[i]) return i;
  return 31;
}

static thread_local int t_slots[8];
int& H::slot(int i) { return t_slots[i & 7]; }
void H::nested(int, int) { H::emit("! nested-not-supported"); }
void H::nestedf(int, int) { H::emit("! nested-not-supported"); }
void H::destroy(int) { H::emit("! destroy-not-supported"); }
void H::deferred(int) { H::emit("! deferred-not-supported"); }

struct HTracer : trompeloeil::tracer
{
  explicit HTracer(int id_) : id(id_) {}
  void trace(char const* file, unsigned long line, std::string const& call) override
  {
    H::emit("T %d %s %lu %s", id, H::esc(file ? file : "<null>").c_str(), line, H::esc(call).c_str());
  }
  int id;
};
// kind 1: the library's own stream_tracer writing to one shared stream - it has no lock of its own, so the library has to
// call it with the global lock held (ThreadSanitizer sees it when a call is traced without)
struct STracer : trompeloeil::stream_tracer { explicit STracer(std::ostream& os) : trompeloeil::stream_tracer(os) {} };
static std::ostringstream g_trace_sink;
struct TracerRec { HTracer* h; STracer* s; };
static std::vector<TracerRec> g_tracers;

// The reporters keep a plain (unsynchronised) tally, as a reporter written for a single-threaded test framework would:
// the library calls them with its global lock held, so ThreadSanitizer sees a report delivered without the lock
static unsigned long g_reports_seen = 0;
static unsigned long g_oks_seen = 0;
struct Rep
{
  void operator()(trompeloeil::severity s, char const* file, unsigned long line, std::string const& msg) const
  {
    ++g_reports_seen;
    H::emit("R A %c %s %lu %s", s == trompeloeil::severity::fatal ? 'F' : 'N',
            H::esc(file ? file : "<null>").c_str(), line, H::esc(msg).c_str());
    if (s == trompeloeil::severity::fatal) throw Fatal{};
  }
};
struct OkRep { void operator()(char const* msg) const { ++g_oks_seen; H::emit("K A %s", H::esc(msg ? msg : "<null>").c_str()); } };

constexpr int MAXID = 1024;
struct Obj { char kind = 0; MockM* m = nullptr; MockN* n = nullptr; WatchM* wm = nullptr; WatchP* wp = nullptr; };
static Obj g_objs[MAXID];
static exp_ptr g_exps[MAXID];
static std::unique_ptr<Params> g_params[MAXID];
static std::unique_ptr<trompeloeil::sequence> g_seqs[MAXID];

struct Op
{
  std::string kind;
  int a[6] = {0, 0, 0, 0, 0, 0};
  int na = 0;
  std::string fn;
  Params p;
  ShapeFn shape_fn = nullptr;
  char shape_cls = 'M';
  exp_ptr (*mon_fn)(void*, Params&) = nullptr;
  char mon_cls = 'W';
  int sq[2] = {-1, -1};
  int nsq = 0;
  int delay = 0;   // spin iterations before the operation (schedule perturbation between operations)
};

static MockM* as_m(Obj& o) { return o.kind == 'M' ? o.m : (o.kind == 'W' ? static_cast<MockM*>(o.wm) : nullptr); }

static void do_call(Obj& o, std::string const& fn, int a, int b)
{
  try
  {
    if (o.kind == 'N')
    {
      if (fn == "f") { int rv = o.n->f(a); H::emit("V ret %d", rv); }
      else { o.n->v(a); H::emit("V void"); }
      return;
    }
    MockM* m = as_m(o);
    if (fn == "f") { int rv = m->f(a); H::emit("V ret %d", rv); }
    else if (fn == "v") { m->v(a); H::emit("V void"); }
    else if (fn == "gi") { int rv = m->g(a); H::emit("V ret %d", rv); }
    else if (fn == "h") { int rv = m->h(a, b); H::emit("V ret %d", rv); }
    else if (fn == "c") { MockM const* cm = m; int rv = cm->c(a); H::emit("V ret %d", rv); }
    else H::emit("V nofn");
  }
  catch (Fatal const&) { H::emit("V fatal"); }
  catch (SeThrow const& e) { H::emit("V exc S %d %d", e.id, e.idx); }
  catch (ThrowInt const& e) { H::emit("V exc I %d %d", e.id, e.arg); }
  catch (ThrowStd const& e) { H::emit("V exc P %d %s %d", e.id, H::esc(e.what()).c_str(), e.arg); }
  catch (std::exception const& e) { H::emit("V exc E %s", H::esc(e.what()).c_str()); }
  catch (...) { H::emit("V exc U"); }
}

static void exec(Op& op, int idx)
{
  for (volatile int i = 0; i < op.delay; ++i) {}
  unsigned long t0 = now();
  H::emit("B %d %lu", idx, t0);
  std::string const& k = op.kind;
  if (k == "call") do_call(g_objs[op.a[0]], op.fn, op.a[1], op.a[2]);
  else if (k == "exp")
  {
    int e = op.a[0];
    g_params[e] = std::make_unique<Params>(op.p);
    Params& p = *g_params[e];
    for (int i = 0; i < op.nsq; ++i) p.seq[i] = g_seqs[op.sq[i]].get();
    Obj& o = g_objs[op.a[3]];
    void* target = op.shape_cls == 'N' ? static_cast<void*>(o.n) : static_cast<void*>(as_m(o));
    try { g_exps[e] = op.shape_fn(target, p); H::emit("M ok"); }
    catch (std::logic_error const& ex) { H::emit("M logic %s", H::esc(ex.what()).c_str()); }
  }
  else if (k == "mon")
  {
    int e = op.a[0];
    g_params[e] = std::make_unique<Params>();
    Params& p = *g_params[e];
    p.id = e;
    for (int i = 0; i < op.nsq; ++i) p.seq[i] = g_seqs[op.sq[i]].get();
    Obj& o = g_objs[op.a[2]];
    void* target = op.mon_cls == 'W' ? static_cast<void*>(o.wm) : static_cast<void*>(o.wp);
    g_exps[e] = op.mon_fn(target, p);
    H::emit("M ok");
  }
  else if (k == "rmexp") { g_exps[op.a[0]].reset(); }
  else if (k == "qexp")
  {
    // two separate library operations, in this order (each is atomic on its own)
    auto& x = g_exps[op.a[0]];
    bool const sat = x->is_satisfied();
    bool const satu = x->is_saturated();
    H::emit("Q %d %d %d", op.a[0], sat ? 1 : 0, satu ? 1 : 0);
  }
  else if (k == "qseq") { H::emit("QS %d %d", op.a[0], g_seqs[op.a[0]]->is_completed() ? 1 : 0); }
  else if (k == "obj")
  {
    Obj o; o.kind = op.fn[0];
    switch (o.kind)
    {
    case 'M': o.m = new MockM; break;
    case 'N': o.n = new MockN; break;
    case 'W': o.wm = new WatchM; break;
    case 'P': o.wp = new WatchP(op.a[0]); break;
    default: break;
    }
    g_objs[op.a[0]] = o;
  }
  else if (k == "mvobj")
  {
    Obj& src = g_objs[op.a[1]];
    Obj o; o.kind = src.kind;
    if (src.kind == 'M') o.m = new MockM(std::move(*src.m));
    else if (src.kind == 'W') o.wm = new WatchM(std::move(*src.wm));
    else if (src.kind == 'P') o.wp = new WatchP(std::move(*src.wp));
    g_objs[op.a[0]] = o;
  }
  else if (k == "rmobj")
  {
    Obj o = g_objs[op.a[0]];
    g_objs[op.a[0]] = Obj{};
    delete o.m; delete o.n; delete o.wm; delete o.wp;
  }
  else if (k == "tr") { if (op.a[1] == 1) g_tracers.push_back({nullptr, new STracer(g_trace_sink)}); else g_tracers.push_back({new HTracer(op.a[0]), nullptr}); }
  else if (k == "rmtr") { if (!g_tracers.empty()) { delete g_tracers.back().h; delete g_tracers.back().s; g_tracers.pop_back(); g_trace_sink.str(std::string()); } }
  else if (k == "seq") { g_seqs[op.a[0]] = std::make_unique<trompeloeil::sequence>(); }
  else if (k == "rmseq") { g_seqs[op.a[0]].reset(); }
  else H::emit("! bad-op %s", k.c_str());
  unsigned long t1 = now();
  H::emit("F %lu", t1);
}

static std::map<std::pair<int,int>, ShapeEntry> g_shapes;
static std::map<int, MonFn> g_mons;

static Op parse(std::string const& line)
{
  std::vector<std::string> t;
  { std::istringstream is(line); std::string x; while (is >> x) t.push_back(x); }
  Op op;
  op.kind = t.at(0);
  auto I = [&](size_t i) { return std::atoi(t.at(i).c_str()); };
  size_t first = 1;
  if (t.size() > 1 && t[1][0] == '~') { op.delay = std::atoi(t[1].c_str() + 1); t.erase(t.begin() + 1); }
  if (op.kind == "call")
  {
    op.a[0] = I(1); op.fn = t.at(2); op.a[1] = I(3); op.a[2] = t.size() > 4 ? I(4) : 0;
  }
  else if (op.kind == "exp")
  {
    op.a[0] = I(1); op.a[1] = I(2); op.a[2] = I(3); op.a[3] = I(4);
    auto it = g_shapes.find({I(2), I(3)});
    if (it == g_shapes.end()) { std::fprintf(stderr, "bad shape %s\n", line.c_str()); std::_Exit(96); }
    op.shape_fn = it->second.fn; op.shape_cls = it->second.cls;
    op.p.id = op.a[0];
    for (size_t i = 5; i < t.size(); ++i)
    {
      auto eq = t[i].find('=');
      std::string k = t[i].substr(0, eq);
      long long v = std::atoll(t[i].c_str() + eq + 1);
      if (k == "val") op.p.val = static_cast<int>(v);
      else if (k == "mask") op.p.mask = static_cast<unsigned>(v);
      else if (k == "val2") op.p.val2 = static_cast<int>(v);
      else if (k == "mask2") op.p.mask2 = static_cast<unsigned>(v);
      else if (k == "w0") op.p.wmask[0] = static_cast<unsigned>(v);
      else if (k == "w1") op.p.wmask[1] = static_cast<unsigned>(v);
      else if (k == "w2") op.p.wmask[2] = static_cast<unsigned>(v);
      else if (k == "se0") op.p.se[0] = static_cast<int>(v);
      else if (k == "se1") op.p.se[1] = static_cast<int>(v);
      else if (k == "se2") op.p.se[2] = static_cast<int>(v);
      else if (k == "lo") op.p.lo = static_cast<unsigned long>(v);
      else if (k == "hi") op.p.hi = v < 0 ? ~0UL : static_cast<unsigned long>(v);
      else if (k == "s0") { op.sq[0] = static_cast<int>(v); if (op.nsq < 1) op.nsq = 1; }
      else if (k == "s1") { op.sq[1] = static_cast<int>(v); op.nsq = 2; }
      else if (k == "slot") op.p.slot = static_cast<int>(v);
    }
  }
  else if (op.kind == "mon")
  {
    op.a[0] = I(1); op.a[1] = I(2); op.a[2] = I(3);
    auto it = g_mons.find(I(2));
    if (it == g_mons.end()) { std::fprintf(stderr, "bad site %s\n", line.c_str()); std::_Exit(96); }
    op.mon_fn = it->second.fn; op.mon_cls = it->second.cls;
    for (size_t i = 4; i < t.size(); ++i) op.sq[op.nsq++] = I(i);
  }
  else if (op.kind == "obj") { op.a[0] = I(1); op.fn = t.at(2); }
  else if (op.kind == "mvobj") { op.a[0] = I(1); op.a[1] = I(2); }
  else { op.a[0] = t.size() > 1 ? I(1) : 0; op.a[1] = t.size() > 2 ? I(2) : 0; }
  (void)first;
  return op;
}

int main()
{
  for (auto& s : shape_registry()) g_shapes[{s.shape, s.slot}] = s;
  for (auto& m : mon_registry()) g_mons[m.site] = m;
  trompeloeil::set_reporter(Rep{}, OkRep{});
  std::string line;
  std::vector<Op> pre, post;
  std::vector<std::vector<Op>> thr;
  int section = 0; // 0 pre, 1 threads, 2 post
  long trial = -1;
  std::vector<int> schedule;
  bool use_sched = false;
  std::string out;
  while (std::getline(std::cin, line))
  {
    if (line.empty()) continue;
    if (line.compare(0, 5, "TRIAL") == 0)
    {
      trial = std::atol(line.c_str() + 6);
      pre.clear(); post.clear(); thr.clear(); section = 0;
      schedule.clear(); use_sched = false;
      continue;
    }
    if (line.compare(0, 5, "SCHED") == 0)
    {
      use_sched = true;
      std::istringstream is(line.substr(5));
      int x; while (is >> x) schedule.push_back(x);
      continue;
    }
    if (line[0] == 'T' && line[1] == ' ') { thr.emplace_back(); section = 1; continue; }
    if (line == "POST") { section = 2; continue; }
    if (line == "END")
    {
      {
        std::string b = "BEGIN " + std::to_string(trial) + "\n";
        if (!out.empty()) { if (::write(1, out.data(), out.size()) < 0) std::_Exit(97); out.clear(); }
        if (::write(1, b.data(), b.size()) < 0) std::_Exit(97);
      }
      g_clock.store(0, std::memory_order_relaxed);
      g_main_log.clear();
      t_log = nullptr;
      out += "TRIAL " + std::to_string(trial) + "\n";
      for (size_t i = 0; i < pre.size(); ++i) exec(pre[i], static_cast<int>(i));
      out += "PRE\n" + g_main_log; g_main_log.clear();
      std::vector<std::string> logs(thr.size());
      std::atomic<int> ready{0};
      std::atomic<bool> go{false};
      std::vector<std::thread> ts;
#ifdef TROMPELOEIL_CUSTOM_RECURSIVE_MUTEX
      if (use_sched) sched::begin_trial(static_cast<int>(thr.size()), schedule);
#endif
      for (size_t ti = 0; ti < thr.size(); ++ti)
      {
        ts.emplace_back([&, ti] {
          t_log = &logs[ti];
#ifdef TROMPELOEIL_CUSTOM_RECURSIVE_MUTEX
          if (use_sched) sched::thread_begin(static_cast<int>(ti));
#endif
          ready.fetch_add(1, std::memory_order_release);
          while (!go.load(std::memory_order_acquire)) {}
          for (size_t i = 0; i < thr[ti].size(); ++i) exec(thr[ti][i], static_cast<int>(i));
          t_log = nullptr;
#ifdef TROMPELOEIL_CUSTOM_RECURSIVE_MUTEX
          if (use_sched) sched::thread_end();
#endif
        });
      }
      while (ready.load(std::memory_order_acquire) != static_cast<int>(thr.size())) {}
      go.store(true, std::memory_order_release);
      for (auto& t : ts) t.join();
#ifdef TROMPELOEIL_CUSTOM_RECURSIVE_MUTEX
      if (use_sched) { out += "SCHEDLOG " + sched::st().log + "\n"; sched::end_trial(); }
#endif
      for (size_t ti = 0; ti < thr.size(); ++ti) { out += "T " + std::to_string(ti) + "\n" + logs[ti]; }
      for (size_t i = 0; i < post.size(); ++i) exec(post[i], static_cast<int>(i));
      out += "POST\n" + g_main_log; g_main_log.clear();
      out += "END\n";
      continue;
    }
    Op op = parse(line);
    if (section == 0) pre.push_back(std::move(op));
    else if (section == 1) thr.back().push_back(std::move(op));
    else post.push_back(std::move(op));
  }
  if (!out.empty() && ::write(1, out.data(), out.size()) < 0) std::_Exit(97);
  return 0;
}
