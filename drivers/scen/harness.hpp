// Scenario driver harness: the only interface between generated expectation "shapes"
// and the hand-written driver. Nothing here has an opinion about outcomes: it records.
#ifndef VERIF_SCEN_HARNESS_HPP
#define VERIF_SCEN_HARNESS_HPP

#include <trompeloeil.hpp>
#include <cstdio>
#include <cstdlib>
#include <memory>
#include <sstream>
#include <stdexcept>
#include <string>
#include <vector>

// ---- mock classes ---------------------------------------------------------------------
struct MockM
{
  static constexpr bool trompeloeil_movable_mock = true;
  MockM() = default;
  MockM(MockM&&) = default;
  virtual ~MockM() = default;
  MAKE_MOCK1(f, int(int));
  MAKE_MOCK1(v, void(int));
  MAKE_MOCK1(g, int(int));
  MAKE_MOCK1(g, int(std::string const&));
  MAKE_MOCK2(h, int(int, int));
  MAKE_MOCK1(r, int&(int&));
  MAKE_CONST_MOCK1(c, int(int));
};

struct MockN
{
  virtual ~MockN() = default;
  MAKE_MOCK1(f, int(int));
  MAKE_MOCK1(v, void(int));
};

struct Plain
{
  Plain() = default;
  explicit Plain(int p) : payload(p) {}
  virtual ~Plain() = default;
  int payload = 0;
};

using WatchM = trompeloeil::deathwatched<MockM>;
using WatchP = trompeloeil::deathwatched<Plain>;

template <int N> inline MockM& tag(MockM& m) { return m; }
template <int N> inline MockN& tagn(MockN& m) { return m; }
template <int N> inline WatchM& tagw(WatchM& m) { return m; }
template <int N> inline WatchP& tagp(WatchP& m) { return m; }

// ---- run-time parameters of an expectation shape ---------------------------------------
struct Params
{
  int id = 0;            // expectation instance id (returned by RETURN, logged by clauses)
  int val = 0;           // operand of literal / relational matchers (first parameter)
  unsigned mask = 0;     // accepted values of the set matcher (first parameter)
  int val2 = 0;          // second parameter (h)
  unsigned mask2 = 0;
  unsigned wmask[3] = {0, 0, 0}; // accept masks of WITH clauses
  int se[3] = {0, 0, 0};         // side-effect behaviour: 0 log, 1 log+throw, 2 log+nested call, 3 log+nested call v(arg-1) if arg>0, 4 write through int&, 5 destroy object nest_obj
  int nest_obj = -1;     // nested call target (object id), function 'v'
  int nest_arg = 0;
  int nest_fn = 0;       // function of the conditional recursion: 0 v(arg-1), 1 f(arg-1)
  int dop = -1;          // deferred operation a side effect in mode 6 carries out (once)
  unsigned long lo = 1, hi = 1;  // RT_TIMES
  trompeloeil::sequence* seq[2] = {nullptr, nullptr};
  int slot = 0;          // reference-return slot
};

struct Fatal {};                       // thrown by the harness' fatal reporter
struct SeThrow { int id; int idx; };   // thrown by a side effect in mode 1
struct ThrowInt { int id; int arg; };   // payload of THROW (not derived from std::exception); arg = the argument the expression was evaluated with
struct ThrowStd : std::runtime_error   // payload of THROW (std::exception with what())
{
  ThrowStd(int id_, int arg_) : std::runtime_error("P" + std::to_string(id_)), id(id_), arg(arg_) {}
  int id;
  int arg;
};

namespace H
{
  void emit(char const* fmt, ...) __attribute__((format(printf, 1, 2)));
  std::string esc(std::string const& s);
  int sidx(std::string const& s); // index of a string argument in the string domain
  void nested(int obj, int arg);  // implemented by the driver
  void nestedf(int obj, int arg); // the same through the value-returning function f
  void destroy(int obj);          // implemented by the driver: destroys that object now (from inside a side effect)
  void deferred(int k);           // implemented by the driver: carries out the deferred operation k (release / create an expectation)

  // the value of a WITH expression only has to be convertible to bool: the second and third clause of a shape give an
  // arithmetic value whose "true" is not 1
  inline int with(Params const& p, int idx, int arg)
  {
    emit("C %d W %d %d", p.id, idx, arg);
    bool ok = arg >= 0 && arg < 32 && ((p.wmask[idx] >> arg) & 1U);
    return ok ? (idx == 0 ? 1 : 6) : 0;
  }
  inline int with(Params const& p, int idx, std::string const& arg)
  {
    return with(p, idx, sidx(arg));
  }
  inline void se(Params const& p, int idx, int arg)
  {
    emit("C %d S %d %d", p.id, idx, arg);
    if (p.se[idx] == 1) throw SeThrow{p.id, idx};
    if (p.se[idx] == 2) nested(p.nest_obj, p.nest_arg);
    if (p.se[idx] == 3 && arg > 0) { if (p.nest_fn == 1) nestedf(p.nest_obj, arg - 1); else nested(p.nest_obj, arg - 1); }   // conditional recursion: terminates because the argument decreases
    if (p.se[idx] == 6) deferred(p.dop);                // re-entrancy: an expectation is released or created from inside the side effect
    if (p.se[idx] == 5) destroy(p.nest_obj);            // the mock object whose function is executing (or its moved-from husk) dies now
  }
  inline void se(Params const& p, int idx, std::string const& arg) { se(p, idx, sidx(arg)); }
  inline void sew(Params const& p, int idx, int& arg)   // side effect on an in/out reference parameter
  {
    emit("C %d S %d %d", p.id, idx, arg);
    if (p.se[idx] == 1) throw SeThrow{p.id, idx};
    if (p.se[idx] == 4) arg = 77 + idx;                 // written through _1: the caller sees it
  }
  inline int ret(Params const& p, int arg)
  {
    emit("C %d V 0 %d", p.id, arg);
    return p.id;
  }
  inline int ret(Params const& p, std::string const& arg) { return ret(p, sidx(arg)); }
  int& slot(int i);
  inline int& retref(Params const& p, int arg)
  {
    emit("C %d V 0 %d", p.id, arg);
    int& s = slot(p.slot);
    s = p.id;
    return s;
  }
  inline ThrowStd thr_std(Params const& p, int arg)
  {
    emit("C %d X 0 %d", p.id, arg);
    return ThrowStd{p.id, arg};
  }
  inline ThrowStd thr_std(Params const& p, std::string const& arg) { return thr_std(p, sidx(arg)); }
  inline ThrowInt thr_int(Params const& p, int arg)
  {
    emit("C %d X 0 %d", p.id, arg);
    return ThrowInt{p.id, arg};
  }
  inline ThrowInt thr_int(Params const& p, std::string const& arg) { return thr_int(p, sidx(arg)); }
}

// ---- set matchers: accept exactly the values in a run-time bit mask ------------------------
inline auto mset(unsigned mask, int id)
{
  return trompeloeil::make_matcher<trompeloeil::wildcard>(
    [](int v, unsigned m, int) { return v >= 0 && v < 32 && ((m >> v) & 1U) != 0; },
    [](std::ostream& os, unsigned m, int i) { os << " in set#" << i << ':' << m; },
    mask, id);
}
inline auto tset(unsigned mask, int id) // explicitly typed variant
{
  return trompeloeil::make_matcher<int>(
    [](int v, unsigned m, int) { return v >= 0 && v < 32 && ((m >> v) & 1U) != 0; },
    [](std::ostream& os, unsigned m, int i) { os << " in tset#" << i << ':' << m; },
    mask, id);
}
inline auto sset(unsigned mask, int id) // for std::string const&
{
  return trompeloeil::make_matcher<std::string const&>(
    [](std::string const& v, unsigned m, int) { int i = H::sidx(v); return ((m >> i) & 1U) != 0; },
    [](std::ostream& os, unsigned m, int i) { os << " in sset#" << i << ':' << m; },
    mask, id);
}
inline std::string sval(int i); // string domain value

using exp_ptr = std::unique_ptr<trompeloeil::expectation>;
using ShapeFn = exp_ptr (*)(void* obj, Params& p);
struct ShapeEntry { int shape; int slot; char cls; ShapeFn fn; };
struct MonFn { int site; char cls; int nseq; exp_ptr (*fn)(void* obj, Params& p); };

std::vector<ShapeEntry>& shape_registry();
std::vector<MonFn>& mon_registry();
struct ShapeReg { ShapeReg(int shape, int slot, char cls, ShapeFn fn) { shape_registry().push_back({shape, slot, cls, fn}); } };
struct MonReg { MonReg(int site, char cls, int nseq, exp_ptr (*fn)(void*, Params&)) { mon_registry().push_back({site, cls, nseq, fn}); } };

char const* const STRDOM[] = {"a", "b", "", "zz"};
inline std::string sval(int i) { return STRDOM[i & 3]; }

#endif
