// Coroutine return types written for the C20 harness: an awaitable task and a range-style
// generator, each with eager (suspend_never) or lazy (suspend_always) start. Both can be
// stepped from plain code so that the harness controls the resume order.
#ifndef VERIF_CORO_TYPES_HPP
#define VERIF_CORO_TYPES_HPP
#include <coroutine>
#include <exception>
#include <iterator>
#include <optional>
#include <utility>

template <bool Eager> using start_t = std::conditional_t<Eager, std::suspend_never, std::suspend_always>;

template <typename T, bool Eager>
struct Task
{
  struct promise_type
  {
    std::optional<T> yielded;
    std::optional<T> value;
    std::exception_ptr ex;
    Task get_return_object() { return Task{std::coroutine_handle<promise_type>::from_promise(*this)}; }
    start_t<Eager> initial_suspend() noexcept { return {}; }
    std::suspend_always final_suspend() noexcept { return {}; }
    std::suspend_always yield_value(T v) { yielded = std::move(v); return {}; }
    void return_value(T v) { value = std::move(v); }
    void unhandled_exception() noexcept { ex = std::current_exception(); }
  };
  using handle = std::coroutine_handle<promise_type>;
  explicit Task(handle h_) : h(h_) {}
  Task(Task&& r) noexcept : h(std::exchange(r.h, nullptr)) {}
  Task(Task const&) = delete;
  ~Task() { if (h) h.destroy(); }
  // awaitable interface (used by trompeloeil to find the value type)
  bool await_ready() const noexcept { return h.done(); }
  void await_suspend(std::coroutine_handle<>) const noexcept {}
  T await_resume() { return result(); }
  // manual stepping
  bool done() const { return h.done(); }
  void resume() { h.promise().yielded.reset(); h.resume(); }
  std::optional<T> take_yield() { auto y = std::move(h.promise().yielded); h.promise().yielded.reset(); return y; }
  T result() { if (h.promise().ex) std::rethrow_exception(h.promise().ex); return *h.promise().value; }
  bool failed() const { return static_cast<bool>(h.promise().ex); }
  handle h;
};

template <bool Eager>
struct Task<void, Eager>
{
  struct promise_type
  {
    bool returned = false;
    std::exception_ptr ex;
    Task get_return_object() { return Task{std::coroutine_handle<promise_type>::from_promise(*this)}; }
    start_t<Eager> initial_suspend() noexcept { return {}; }
    std::suspend_always final_suspend() noexcept { return {}; }
    void return_void() { returned = true; }
    void unhandled_exception() noexcept { ex = std::current_exception(); }
  };
  using handle = std::coroutine_handle<promise_type>;
  explicit Task(handle h_) : h(h_) {}
  Task(Task&& r) noexcept : h(std::exchange(r.h, nullptr)) {}
  Task(Task const&) = delete;
  ~Task() { if (h) h.destroy(); }
  bool await_ready() const noexcept { return h.done(); }
  void await_suspend(std::coroutine_handle<>) const noexcept {}
  void await_resume() { result(); }
  bool done() const { return h.done(); }
  void resume() { h.resume(); }
  void result() { if (h.promise().ex) std::rethrow_exception(h.promise().ex); }
  bool failed() const { return static_cast<bool>(h.promise().ex); }
  handle h;
};

template <typename T, bool Eager>
struct Gen
{
  struct promise_type
  {
    std::optional<T> yielded;
    std::exception_ptr ex;
    Gen get_return_object() { return Gen{std::coroutine_handle<promise_type>::from_promise(*this)}; }
    start_t<Eager> initial_suspend() noexcept { return {}; }
    std::suspend_always final_suspend() noexcept { return {}; }
    std::suspend_always yield_value(T v) { yielded = std::move(v); return {}; }
    void return_void() {}
    void unhandled_exception() noexcept { ex = std::current_exception(); }
  };
  using handle = std::coroutine_handle<promise_type>;
  explicit Gen(handle h_) : h(h_) {}
  Gen(Gen&& r) noexcept : h(std::exchange(r.h, nullptr)) {}
  Gen(Gen const&) = delete;
  ~Gen() { if (h) h.destroy(); }
  struct iterator
  {
    using value_type = T;
    using difference_type = std::ptrdiff_t;
    handle h{};
    T const& operator*() const { return *h.promise().yielded; }
    iterator& operator++() { h.promise().yielded.reset(); h.resume(); if (h.promise().ex) std::rethrow_exception(h.promise().ex); return *this; }
    void operator++(int) { ++*this; }
    friend bool operator==(iterator const& i, std::default_sentinel_t) { return i.h.done(); }
  };
  iterator begin()
  {
    if (!h.promise().yielded && !h.done()) { h.resume(); if (h.promise().ex) std::rethrow_exception(h.promise().ex); }
    return iterator{h};
  }
  std::default_sentinel_t end() const { return {}; }
  // manual stepping
  bool done() const { return h.done(); }
  void resume() { h.promise().yielded.reset(); h.resume(); }
  std::optional<T> take_yield() { auto y = std::move(h.promise().yielded); h.promise().yielded.reset(); return y; }
  void result() { if (h.promise().ex) std::rethrow_exception(h.promise().ex); }
  bool failed() const { return static_cast<bool>(h.promise().ex); }
  handle h;
};
template <typename T, bool Eager>
struct Gen2   // as Gen, but the promise accepts yielded values through an overload set (const& and &&) - a common way to write it
{
  struct promise_type
  {
    std::optional<T> yielded;
    std::exception_ptr ex;
    Gen2 get_return_object() { return Gen2{std::coroutine_handle<promise_type>::from_promise(*this)}; }
    start_t<Eager> initial_suspend() noexcept { return {}; }
    std::suspend_always final_suspend() noexcept { return {}; }
    std::suspend_always yield_value(T const& v) { yielded = v; return {}; }
    std::suspend_always yield_value(T&& v) { yielded = std::move(v); return {}; }
    void return_void() {}
    void unhandled_exception() noexcept { ex = std::current_exception(); }
  };
  using handle = std::coroutine_handle<promise_type>;
  explicit Gen2(handle h_) : h(h_) {}
  Gen2(Gen2&& r) noexcept : h(std::exchange(r.h, nullptr)) {}
  Gen2(Gen2 const&) = delete;
  ~Gen2() { if (h) h.destroy(); }
  struct iterator
  {
    using value_type = T;
    using difference_type = std::ptrdiff_t;
    handle h{};
    T const& operator*() const { return *h.promise().yielded; }
    iterator& operator++() { h.promise().yielded.reset(); h.resume(); if (h.promise().ex) std::rethrow_exception(h.promise().ex); return *this; }
    void operator++(int) { ++*this; }
    friend bool operator==(iterator const& i, std::default_sentinel_t) { return i.h.done(); }
  };
  iterator begin()
  {
    if (!h.promise().yielded && !h.done()) { h.resume(); if (h.promise().ex) std::rethrow_exception(h.promise().ex); }
    return iterator{h};
  }
  std::default_sentinel_t end() const { return {}; }
  // manual stepping
  bool done() const { return h.done(); }
  void resume() { h.promise().yielded.reset(); h.resume(); }
  std::optional<T> take_yield() { auto y = std::move(h.promise().yielded); h.promise().yielded.reset(); return y; }
  void result() { if (h.promise().ex) std::rethrow_exception(h.promise().ex); }
  bool failed() const { return static_cast<bool>(h.promise().ex); }
  handle h;
};
// an awaitable whose result is a reference: the promise keeps the address of what CO_RETURN named
template <typename T>
struct RefTask
{
  struct promise_type
  {
    T const* value = nullptr;
    std::exception_ptr ex;
    RefTask get_return_object() { return RefTask{std::coroutine_handle<promise_type>::from_promise(*this)}; }
    std::suspend_always initial_suspend() noexcept { return {}; }
    std::suspend_always final_suspend() noexcept { return {}; }
    void return_value(T const& v) { value = &v; }
    void unhandled_exception() noexcept { ex = std::current_exception(); }
  };
  using handle = std::coroutine_handle<promise_type>;
  explicit RefTask(handle h_) : h(h_) {}
  RefTask(RefTask&& r) noexcept : h(std::exchange(r.h, nullptr)) {}
  RefTask(RefTask const&) = delete;
  ~RefTask() { if (h) h.destroy(); }
  bool await_ready() const noexcept { return h.done(); }
  void await_suspend(std::coroutine_handle<>) const noexcept {}
  T const& await_resume() { return result(); }
  bool done() const { return h.done(); }
  void resume() { h.resume(); }
  T const& result() { if (h.promise().ex) std::rethrow_exception(h.promise().ex); return *h.promise().value; }
  handle h;
};
#endif
