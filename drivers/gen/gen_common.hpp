// Common harness of the generated self-reporting programs (C09, C10, C11, C18, C20).
#ifndef VERIF_GEN_COMMON_HPP
#define VERIF_GEN_COMMON_HPP
#include <trompeloeil.hpp>
#include <cstdio>
#include <string>
#include <vector>

struct Fatal {};

namespace G
{
  void out(char const* fmt, ...) __attribute__((format(printf, 1, 2)));
  std::string esc(std::string const& s);
  using TestFn = void (*)();
  struct Reg { Reg(int id, TestFn f); };
  struct Report { bool fatal; std::string file; unsigned long line; std::string msg; };
  std::vector<Report>& reports();   // every report since the last clear
  std::vector<std::string>& oks();
}
#endif
