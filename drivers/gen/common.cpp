#include "gen_common.hpp"
#include <cstdarg>
#include <cstdlib>
#include <cstring>
#include <map>
#include <unistd.h>

namespace G
{
  static std::string g_out;
  static std::map<int, TestFn>& tests() { static std::map<int, TestFn> t; return t; }
  Reg::Reg(int id, TestFn f) { tests()[id] = f; }
  std::vector<Report>& reports() { static std::vector<Report> r; return r; }
  std::vector<std::string>& oks() { static std::vector<std::string> r; return r; }

  static void flush()
  {
    size_t off = 0;
    while (off < g_out.size())
    {
      ssize_t n = ::write(1, g_out.data() + off, g_out.size() - off);
      if (n <= 0) std::_Exit(97);
      off += static_cast<size_t>(n);
    }
    g_out.clear();
  }

  void out(char const* fmt, ...)
  {
    char buf[2048];
    va_list ap;
    va_start(ap, fmt);
    int n = vsnprintf(buf, sizeof buf, fmt, ap);
    va_end(ap);
    if (n < 0) std::_Exit(98);
    if (static_cast<size_t>(n) >= sizeof buf)
    {
      std::vector<char> big(static_cast<size_t>(n) + 1);
      va_start(ap, fmt);
      vsnprintf(big.data(), big.size(), fmt, ap);
      va_end(ap);
      g_out.append(big.data(), static_cast<size_t>(n));
    }
    else g_out.append(buf, static_cast<size_t>(n));
    g_out.push_back('\n');
    if (g_out.size() > (1U << 16)) flush();
  }

  std::string esc(std::string const& s)
  {
    std::string r;
    for (unsigned char c : s)
    {
      if (c == '\\') r += "\\\\";
      else if (c == '\n') r += "\\n";
      else if (c == ' ') r += "\\s";
      else if (c < 32 || c > 126) { char b[8]; snprintf(b, sizeof b, "\\x%02x", c); r += b; }
      else r.push_back(static_cast<char>(c));
    }
    if (r.empty()) r = "\\e";
    return r;
  }
}

int main(int argc, char** argv)
{
  trompeloeil::set_reporter(
    [](trompeloeil::severity s, char const* file, unsigned long line, std::string const& msg) {
      G::reports().push_back({s == trompeloeil::severity::fatal, file ? file : "", line, msg});
      if (s == trompeloeil::severity::fatal) throw Fatal{};
    },
    [](char const* msg) { G::oks().push_back(msg ? msg : ""); });
  int only = argc > 1 ? std::atoi(argv[1]) : -1;
  for (auto& kv : G::tests())
  {
    if (only >= 0 && kv.first != only) continue;
    G::out("TEST %d", kv.first);
    G::flush();
    kv.second();
    G::out("DONE %d", kv.first);
  }
  G::out("ALL-DONE");
  G::flush();
  return 0;
}
