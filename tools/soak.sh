#!/bin/bash
# Silence soak: every quick check at several seeds, from fresh processes. Prints one line per run.
cd "$(dirname "$0")/.."; mkdir -p out evidence
SEEDS=${SEEDS:-"1 2 3 4 5 12345 2147483647"}
PROPS=${PROPS:-"C01 C02 C03 C04 C05 C06 C07 C08 C09 C10 C11 C12 C13 C14 C15 C16 C17 C18 C20"}
TIER=${TIER:-quick}
for s in $SEEDS; do
  for p in $PROPS; do
    t0=$(date +%s)
    VERIF_SEED=$s ./check $p --tier $TIER > out/soak_${p}_${s}.log 2>&1
    rc=$?
    echo "seed=$s $p exit=$rc $(( $(date +%s) - t0 ))s $(grep -c VIOLATION out/soak_${p}_${s}.log) violations; $(tail -1 out/soak_${p}_${s}.log | cut -c1-160)"
  done
done
