#!/usr/bin/env python3
"""Collect confirmed seeded changes from /tmp/seedout/<prop>/ (written by independent
sub-agents) into /verif/seeded/<id>/ : patch.diff, demo.cpp, README.md (the author's notes),
meta.json (property, what it needs to manifest, what was run, which checks caught it)."""
import json, os, shutil, sys

SRC = '/tmp/seedout'
ROUNDS = [('/tmp/seedout', 0), ('/tmp/seedout2', 2), ('/tmp/seedout3', 4), ('/tmp/seedout4', 6), ('/tmp/seedout5', 8)]
DST = os.path.join(os.path.dirname(os.path.dirname(os.path.abspath(__file__))), 'seeded')

NEEDS = {
    'C01-10': 'condition::check() returns c(t) == true: WITH expression of arithmetic type whose true value is not 1',
    'C01-9': 'forbidden check guarded by !reported: a FORBID_CALL selected again after its first hit was reported (or after a no-match listing named it) accepts the call',
    'C02-10': 'lock narrowed to find() / report_mismatch (as C01-8)',
    'C02-9': 'hand-written move constructor of expectations<movable> re-hooks matchers in reverse order (as C01-3 / C14-4, other site)',
    'C03-10': 'over-call report names only the first saturated match (as C15-1, other site)',
    'C03-9': 'is_satisfied() / is_saturated() no longer take the lock: flags queried by one thread while another makes the calls (TSan)',
    'C04-10': 'non-fatal reports dropped while an exception is being handled (current_exception): lifetime ends inside a catch block',
    'C04-9': 'OK report sent before the call is counted: only visible to an OK reporter that throws or re-enters the library',
    'C05-10': 'retire_predecessors / retire run after the side effects: a SIDE_EFFECT of a sequenced expectation throws (or calls the earlier step), then the earlier step is called again',
    'C05-9': 'cost() of a handle whose sequence object is gone is always 0 (as C01-5)',
    'C06-10': '~sequence_type sends its report before dissolving the sequence: only visible to a reporter that makes a mock call while handling the teardown report',
    'C06-9': 'increment_call before the can_be_called() check (as C04-7 / C01-1)',
    'C07-10': '~call_matcher no longer unlinks itself: the dying expectation stays findable after the lock is released (second thread calling; call from a destructor of a captured object)',
    'C07-9': 'find() returns the first match whose cost is not ~0: older FORBID_CALL plus a newer sequenced expectation that is callable but not first in line',
    'C08-10': 'report_mismatch evaluates every WITH clause behind the first failing one while writing a no-match report',
    'C08-9': 'by-value trace_return moves from an lvalue RETURN result: LR_RETURN(local) / RETURN(_1) on T& of class type gut the named object; later calls return the empty value',
    'C09-10': "return_result<Ret> applies std::move to a forwarding reference: RETURN(_n) with a T& parameter / LR_RETURN(local) of class type move from the caller's object",
    'C09-9': "run_actions stores &params in a member read by return_value: a SIDE_EFFECT re-enters the same expectation, afterwards _N in the outer RETURN refers to the inner call's dead tuple",
    'C10-10': 'ne / le / ge implemented as !eq / !gt / !lt: wrong for unordered operands (NaN)',
    'C10-9': '*m null check through is_null(): a user-written handle that is null only through its converting constructor is dereferenced when empty',
    'C11-10': 'store_as<const char(&)[N]> drops the last member: element list held in an array of const char',
    'C11-9': 'variadic range_includes moves its lvalue arguments: a named class-type element reused for a second matcher',
    'C12-10': 'sequence_handler constructor registers first and sets the limits in its body under a second lock acquisition: TIMES before IN_SEQUENCE visible with bounds 1..1 for a moment (atomicity, no data race)',
    'C12-9': '~call_matcher returns early (skipping sequences.reset() under the lock) when not hooked on a mock: half-built sequenced expectation (inverted RT_TIMES after IN_SEQUENCE) torn down while another thread uses the sequence (TSan)',
    'C13-10': "~deathwatched sends 'Unexpected destruction' after releasing the lock: reports no longer serialised (second thread)",
    'C13-9': '~lifetime_monitor skips the still-alive report during stack unwinding',
    'C14-10': 'mock_func unlocks between run_actions() and return_value(): expectation released on another thread while its RETURN expression is evaluated (use after free)',
    'C14-9': '~call_matcher no longer resets its sequence handles under the lock (D4 re-introduced)',
    'C15-10': 'a just-saturated expectation is filed on the saturated list only when its call is over: nested call from its own side effect at the exact count',
    'C15-9': 'send_report downgrades fatal to non-fatal while the stack is unwinding: only observable with a reporter that does not throw on a fatal report',
    'C16-10': 'static re-entrancy guard around the OK report, not exception safe: OK reporter that makes a mock call or throws once',
    'C16-9': 'sendOk fast path skips every OK reporter that is a plain function pointer',
    'C17-10': 'record passed as c_str(): cut at the first NUL byte of a printed argument',
    'C17-9': '~trace_agent does not deliver while the stack is unwinding: accepted call made from a destructor during unwinding loses its record',
    'C18-10': 'stream_sentry constructor resets only base and adjustment: showbase / uppercase / showpos / boolalpha carried by the stream leak into leaf values',
    'C18-9': 'arrays of char treated as streamable text: char[N] printed as a C string (over-read, cut at NUL) instead of element-wise',
    'C20-10': "the library lock is taken inside the coroutine body and held across suspensions: a parked coroutine blocks every other thread's mock calls",
    'C20-9': 'yield loop compiled in only if &promise_type::yield_value is well-formed: promises with an overloaded / templated yield_value produce no CO_YIELD values',
    'C01-7': 'lifetime_monitor::notify retires itself before its predecessors (swapped blocks + the existing !is_retired guard): sequence [optional / ranged call step, REQUIRE_DESTRUCTION, later step], object dies in order, the earlier step is called again',
    'C01-8': 'lock narrowed to find() / report_mismatch in mock_func (selection and counting no longer one critical section): two threads calling an expectation that has one call left (atomicity, no data race)',
    'C02-7': 'retire_until retires a passed-over step from every sequence it names: optional step in two sequences passed over in one of them; a later step of the other sequence then outranks an older unsequenced expectation',
    'C02-8': 'mock_destroyed() retires the expectation from its sequences (as C06-6; observed through the ranking of a later step on another object)',
    'C03-7': 'forbidden-ness cached in call_matcher and not set by runtime_times: RT_TIMES(0), RT_TIMES(0,0), RT_TIMES(AT_MOST(0)) accept calls',
    'C03-8': 'NAMED_FORBID_CALL_V with extra clauses expands with INFINITY_TIMES: the three-argument _V forbid on a void function',
    'C04-7': 'increment_call before the can_be_called() check: a rejected out-of-sequence call is counted, so the shortfall report at the end of life is missing or carries the wrong count',
    'C04-8': 'report_missed no longer sets the reported flag and decommission unlinks only the list head (two cooperating sites): mock dies before >=2 expectations on one function, the short one is reported twice',
    'C05-7': 'retire_until stops at an unsatisfied front element: after an out-of-order (reported) sequenced destruction later steps are refused and earlier ones accepted',
    'C05-8': 'retire_predecessors returns (instead of continue) when the cost in the first named sequence is 0: IN_SEQUENCE(s1,s2) expectation first in s1 with a satisfied-but-pending / optional predecessor in s2 that is called again afterwards',
    'C06-7': 'sequence move assignment implemented as swap: dst = std::move(src) while dst still has registered expectations (no teardown report, old entries keep blocking each other)',
    'C06-8': 'one-argument RT_TIMES(n) loses its lower bound: sequenced RT_TIMES(n) is satisfied from the start (is_completed() true early, successors not blocked)',
    'C07-7': 'list move constructor re-links elements in reverse order: movable mock with older ALLOW_CALL and newer FORBID_CALL, move, matching call',
    'C07-8': 'forbidden-ness cached from the compile-time limit: RT_TIMES(0) forbids are accepted silently',
    'C08-7': 'THROW handler caches the first exception object: expectation with THROW accepting >=2 calls with differing arguments',
    'C08-8': 'const scalar lvalue returned by reference becomes a temporary: function returning a reference to const scalar with RETURN of a const lvalue (address check)',
    'C09-7': "plain-value parameter comparison forwards (moves) the caller's argument into operator==: type with by-value operator== and a gutting move, expectation written with a plain value",
    'C09-8': '!matcher takes its argument by value: negated matcher on a copy-counting parameter type',
    'C10-7': 'string_helper measures every string with strlen: string_view sub-range of a longer buffer, std::string with an embedded NUL',
    'C10-8': 'C-string overload of regex_check drops the match flags: char const* parameter with match_not_bol / match_not_eol / match_continuous',
    'C11-7': 'range_includes with an empty element list rejects every range',
    'C11-8': 'range_ends_with (container form) caches the first list length in a function-local static: >=2 matchers of the same types with different list lengths in one program',
    'C12-7': 'lock for sequence registration moved from sequence_matcher into call_matcher::set_sequence: REQUIRE_DESTRUCTION IN_SEQUENCE created while another thread walks the sequence (TSan)',
    'C12-8': 'lock released in the catch handler of mock_func before ~trace_agent runs: throwing traced call concurrent with another traced call (TSan, race inside the tracer)',
    'C13-7': '~deathwatched returns early during stack unwinding: watched object destroyed by a propagating exception (death not reported / requirement never told, later write into the freed object)',
    'C13-8': 'lifetime_monitor::died is a plain bool: is_satisfied() / is_saturated() polled by another thread while the object is destroyed (TSan)',
    'C14-7': 'validate_match dereferences the sequence pointer after the sequence object died: IN_SEQUENCE(s1,s2) expectation, s1 destroyed, then called out of order with respect to s2 (null dereference)',
    'C14-8': "null_on_move copy assignment clears the target's monitor pointer: watched object assigned to while a requirement on it is alive",
    'C15-7': 'find() prefers the oldest candidate on ties (<=): >=2 matching expectations all blocked by their sequences - the report blames the wrong one',
    'C15-8': 'report_mismatch lists every failing WITH clause instead of only the first',
    'C16-7': 'default OK reporter skipped while an exception is being handled: accepted call made inside a catch block',
    'C16-8': 'call against a destroyed sequence is reported non-fatally and then also counted and OK-reported',
    'C17-7': 'trace record dropped if the active tracer changed during the call: side effect constructs a second tracer that outlives the call',
    'C17-8': 'returned value printed after it was moved from: function returning std::string / std::vector by value from an rvalue RETURN expression',
    'C18-7': 'printer<reference_wrapper<T>> prints through print<T> with T const: const-reference parameters lose a user printer<T> and pair / tuple element-wise printing',
    'C18-8': 'indirect_null lost its data-member-pointer conversion: a null pointer to member prints as 0',
    'C20-7': 'CO_RETURN / CO_THROW expression evaluated before the yields for functions with parameters',
    'C20-8': 'CO_RETURN result moved instead of forwarded: LR_CO_RETURN(local) of class type, the second call sees the gutted object',
    'C01-1': 'call counted before the sequence check: an out-of-sequence (rejected) call of an IN_SEQUENCE expectation, then continued use (flag queries / further calls)',
    'C01-2': 'match_conditions returns after the first WITH: an expectation with >=2 WITH clauses called with arguments that satisfy the first but fail a later clause',
    'C02-1': 'find() never lowers lowest_cost: >=2 overlapping expectations that each sit behind pending optional/satisfied sequence steps (all costs > 0)',
    'C02-2': 'optional steps no longer counted in the sequence cost: older cheaper candidate vs newer candidate behind ALLOW_CALL steps',
    'C03-1': 'call counted before the sequence check: expectation with IN_SEQUENCE called too early, then flags queried / called again',
    'C03-2': 'move constructor of expectations<movable> leaves the saturated list behind: movable mock, saturated expectation, move, one more matching call (report no longer names the saturated expectation)',
    'C04-1': 'mock_destroyed ignores the already-reported flag: no-match listing names a short expectation, then the mock dies before the expectation',
    'C04-2': 'a handled call clears the already-reported flag: TIMES(>=2), a no-match call naming it, one handled call, then end of life while still short',
    'C05-1': 'monitor retires itself before its predecessors: optional/satisfied predecessor still pending at an in-order monitored destruction, then called again',
    'C05-2': 'order() sums per-sequence costs (unsigned wrap of ~0U): IN_SEQUENCE(s1,s2) expectation called while blocked in s1 and not first in s2',
    'C06-1': 'is_completed() looks only at the head: head satisfied but unsaturated (range bound / optional) with an unmet successor',
    'C06-2': 'retire_until retires one predecessor per call: >=2 skippable predecessors passed over by one call, successor called fewer times, sequence destroyed while expectations live',
    'C07-1': 'forbidden check skipped once `reported` is set: second hit of the same FORBID_CALL, or a no-match listing naming it followed by a matching call',
    'C07-2': 'forbidden check after increment_call: one caught forbidden hit, then is_saturated() queried',
    'C08-1': 'WITH clauses no longer stop at the first failure: >=2 WITH clauses, a call failing a non-last clause with an observable later clause',
    'C08-2': 'RETURN evaluated twice while a tracer is alive: tracer installed + non-void function with observable / non-idempotent RETURN expression',
    'C09-1': '_10 is a copy inside SIDE_EFFECT: arity >= 10 and identity of the 10th argument observed (write through T&, &_10, copy count)',
    'C09-2': '_6 is a copy inside RETURN: arity >= 6, RETURN(_6) on a reference-returning function / copy counts / writes in RETURN',
    'C10-1': 're() treats an empty string as null: empty non-null string with a regex that matches the empty string (also nested under ! / * / any_of ...)',
    'C10-2': 'all_of keeps only the last operand\'s verdict: a non-last operand rejects while the last accepts',
    'C11-1': 'range_includes (container form) lets one member satisfy several listed elements: repeated element in the list occurring fewer times in the range',
    'C11-2': 'range_ends_with (variadic) rejects a suffix that is the whole range: range exactly as long as the element list',
    'C12-1': 'lock released between find() and run_actions(): two threads calling a once-only expectation concurrently are both accepted (no data race - only an atomicity check sees it)',
    'C12-2': '~deathwatched notifies its monitor without the lock: expected death IN_SEQUENCE concurrent with another thread using the same sequence (TSan)',
    'C13-1': 'null_on_move copy constructor copies the monitor pointer: copy-construct a watched object from a *const* source while a requirement is alive, destroy the copy',
    'C13-2': '~lifetime_monitor clears the object slot even after the object died: require A, destroy A, release the requirement (write into freed object; reused storage un-watches B)',
    'C14-1': '~sequence_type unlinks retired handles without clearing their pointer: expectation passed over in a sequence, sequence destroyed, expectation called again (heap-use-after-free)',
    'C14-2': '~expectations<movable> decommissions `active` twice: movable mock dies while a saturated NAMED expectation is alive (abort in ignore_disposer)',
    'C15-1': 'no-match report lists only the first matching saturated expectation: >=2 saturated expectations that would match the unmatched call',
    'C15-2': 'exhausted-sequence mismatch always reported fatal: out-of-sequence monitored destruction against a sequence with no pending entries (fatal from a destructor)',
    'C16-1': 'OK report guarded by can_be_called() after retire(): the saturating call of an IN_SEQUENCE expectation gets no OK report',
    'C16-2': 'set_reporter(rf, orf) returns the new OK reporter: save / restore of the reporter pair',
    'C17-1': '~tracer restores nullptr instead of the previous tracer: nested tracer lifetimes, inner destroyed, then a call',
    'C17-2': 'run_actions moved out of the try block: exception thrown from a SIDE_EFFECT is traced without what() / unknown marker',
    'C18-1': 'stream_sentry does not restore a default fill: hex-dumped value into a stream with fill \' \' followed by padded output',
    'C18-2': 'hexdump walks the object as char: bytes >= 0x80 print sign-extended',
    'C20-1': 'yield list created by CO_RETURN not stored back: CO_RETURN placed before the first CO_YIELD drops all yields',
    'C20-2': 'yield cursor stored in the handler (per expectation) instead of the coroutine frame: >=2 calls on one expectation resumed interleaved',
    'C01-3': 'move constructor of expectations<movable> re-hooks matchers in reverse order: movable mock, >=2 overlapping live expectations (newer FORBID_CALL), an odd number of moves, a call matching both',
    'C01-4': 'order() sums per-sequence costs with an incomplete wrap guard: IN_SEQUENCE(s1,s2) expectation with a skippable predecessor in s1 and an unsatisfied required predecessor in s2',
    'C02-3': 'multi-sequence distance is the sum instead of the maximum: expectation in two sequences with skippable predecessors in both vs a competitor whose distance lies between max and sum',
    'C02-4': 'predecessors retired only once the lower bound is reached (D1 re-introduced)',
    'C03-3': 'is_satisfied() returns !is_unfulfilled(): short expectation named in a no-match listing (or its mock destroyed) then queried',
    'C03-4': 'lock released around trace_params between find() and run_actions(): several threads call the same nearly exhausted expectation (no data race; atomicity only)',
    'C04-3': 'building the "Tried" text sets the already-reported flag even when the saturated listing is sent: saturated + short active expectation, surplus call, end of life of the short one (report missing)',
    'C04-4': '~call_matcher reports only when no exception is propagating: short expectation released during stack unwinding (report missing)',
    'C05-3': 'guard !is_retired removed from retire_predecessors: [destruction o1, destruction o2, call C] with o2 dying first then o1 (D13 re-introduced)',
    'C05-4': 'find() keeps the highest cost: one call matching >=2 sequenced expectations none of which is first in line',
    'C06-3': '~sequence_type lists only unsatisfied entries: sequence destroyed while a satisfied-but-unsaturated entry is registered',
    'C06-4': 'destruction requirement retires itself before counting (never leaves its sequence): died requirement listed at sequence teardown (D8 re-introduced)',
    'C07-3': 'forbidden-call report prints the expectation\'s parameter description instead of the actual arguments: forbid with a matcher (not a literal)',
    'C07-4': 'mock_destroyed resets the sequence handler (limits and count): forbid outlives its mock, then flags queried',
    'C08-3': 'side effects skipped once the expectation was listed in a no-match report: unmatched call, then an accepted call of an expectation with SIDE_EFFECT',
    'C08-4': 'the WITH clause that failed last is evaluated first: >=2 WITH clauses, a call failing a later clause, then another call',
    'C09-3': '_13 and _15 swapped inside SIDE_EFFECT: 15-ary function with distinguishable 13th and 15th arguments',
    'C09-4': 'THROW handler is a function-local static: the same THROW source line creates two expectations with different captured values',
    'C10-3': '!*m rewritten to *!m: negation directly outside a dereference applied to a null pointer',
    'C10-4': 'class-type lvalue operands held by reference: matcher built from a named std::string that is changed before the call',
    'C11-3': 'lvalue std::vector element list viewed in place: container changed after the matcher was created',
    'C11-4': 'range_is_permutation removes a used matcher with erase() instead of swap-remove: >=3 overlapping element matchers (outcome still that of a range-order greedy assignment)',
    'C12-3': 'RT_TIMES loses its lock: IN_SEQUENCE(s) before RT_TIMES while another thread uses s (TSan)',
    'C12-4': '~lifetime_monitor decides on a stale read of `died` taken before the lock: requirement released while another thread destroys the object inside a mock call (atomicity, no data race)',
    'C13-3': 'copy assignment lets an unwatched target adopt the source\'s requirement: B = A with a requirement on A only, B destroyed first',
    'C13-4': 'notify() returns before recording the death when out of sequence: sequenced requirement, object destroyed early, then query / release',
    'C14-3': 'notify() returns early on an out-of-sequence death: later release of the requirement writes into the freed object',
    'C14-4': 'move constructor of expectations<movable> re-hooks active expectations in reverse order (no memory error; behaviour on the moved mock changes)',
    'C15-3': 'moved mock loses its saturated list: no-match report after a move names live expectations instead of the saturated one',
    'C15-4': 'call against a destroyed sequence object is reported non-fatal: passed expectation called after its sequence was destroyed',
    'C16-3': 'OK report suppressed once the expectation was named in a no-match listing: unmatched call, then accepted calls',
    'C16-4': 'one-argument set_reporter resets the OK reporter to the default: set_reporter(rf, orf) then set_reporter(rf2) then an accepted call',
    'C17-3': 'trace_agent shares one static stream: accepted call that makes another mock call (nested) while a tracer is alive',
    'C17-4': 'tracer pointer is thread_local: tracer alive on one thread, accepted call on another thread',
    'C18-3': 'null guard moved from print() into the default printer<T>: user-provided printer<T> for a null-comparable T is handed null values',
    'C18-4': 'streamable collections (std::string, string_view) streamed without stream_sentry: string printed into a stream with non-zero width',
    'C20-3': 'CO_RETURN / CO_THROW functor moved into the first coroutine frame: >=2 calls on one expectation whose expression uses a captured class-type local',
    'C01-5': 'cost() returns 0 for every entry once the sequence object is gone: a passed-over step is called after its sequence object was destroyed',
    'C01-6': 'retire_predecessors guarded by is_satisfied() (D1 re-introduced at another site)',
    'C02-5': 'requirement retires itself before its predecessors: optional step, REQUIRE_DESTRUCTION, later step L in one sequence; object dies; a call matching L and an older unsequenced expectation',
    'C02-6': 'inverted ternary in cost() for a destroyed sequence: passed entries become callable, pending ones blocked',
    'C03-5': 'OK report sent before the call is counted: only visible to an OK reporter that re-enters the same mock function',
    'C03-6': 'one-argument RT_TIMES(n) has no upper bound',
    'C04-5': 'already-reported flag set after the report is sent: only visible to a reporter that destroys the mock from inside the callback',
    'C04-6': '~call_matcher samples is_unfulfilled() before taking the lock: mock destroyed by one thread while another releases an expectation on it (double report)',
    'C05-5': 'validate() stops after the first violated sequence: REQUIRE_DESTRUCTION IN_SEQUENCE(s1,s2) dying while blocked in both (one report instead of two)',
    'C05-6': 'call counted before the eligibility check (as C01-1 / C03-1, other site)',
    'C06-5': 'retire_predecessors guarded by cost != ~0U: out-of-turn monitored destruction leaves unmet earlier steps registered',
    'C06-6': 'mock_destroyed() retires the expectation from its sequences (the reading of C04/C06 in which mock destruction ends the lifetime)',
    'C07-5': 'forbidden hit reported non-fatal when an exception is being handled: forbidden call made from inside a catch block',
    'C07-6': 'NAMED_FORBID_CALL_V with clauses expands like NAMED_ALLOW_CALL_V: the _V spelling with a WITH clause on a void function',
    'C08-5': 'a side effect already running is not started again: recursion into the same expectation from its own side effect',
    'C08-6': 'remaining side effects dropped once the expectation is unlinked: a side effect that destroys the mock the call was made on',
    'C09-5': 'decay_return_type copies const lvalues: RETURN(_n) on a function returning const T&',
    'C09-6': 'tuple printed by value: tuple parameter while a tracer is alive (extra copy before the clauses run)',
    'C10-5': '*m moves from a named matcher: named matcher with a class-type operand composed with * and then used again',
    'C10-6': 'integral operand narrowed to the parameter type: unsigned char / short parameter compared with an int operand outside its range',
    'C11-5': 'range_ends_with (container form) uses std::search: listed tail also occurs earlier in the range',
    'C11-6': 'range_starts_with (container form) accepts an empty range for a non-empty list',
    'C12-5': '~expectations peeks at saturated.empty() without the lock: mock destroyed while another thread releases its saturated expectation (narrow window)',
    'C12-6': 'trompeloeil_expect_death() loses its lock: one thread releases a requirement while another places a second one on the same object (two requirements on one object: known-finding territory D10)',
    'C13-5': 'move assignment to a watched object drops its requirement (defaulted special members + null_on_move move assignment)',
    'C13-6': '~lifetime_monitor reads died before the lock (as C12-4)',
    'C14-5': 'null_on_move copy constructor copies the monitor pointer (as C13-1)',
    'C14-6': 'move constructor initialises saturated from r.active: saturated expectations stay behind after a move',
    'C15-5': 'severity overwritten with non-fatal after the first sequence: IN_SEQUENCE(s1,s2) call violating only the second listed sequence',
    'C15-6': 'print_mismatch stops after the first rejecting parameter: function with >=2 parameters rejected on >=2 of them',
    'C16-5': 'OK report sent after the side effects: accepted call whose side effect throws gets no OK report',
    'C16-6': 'OK reporter object is thread_local: set_reporter on one thread, accepted call on another',
    'C17-5': 'parameters formatted lazily after the actions ran: side effect writes through an in/out reference parameter',
    'C17-6': 'stream_tracer snapshots the stream buffer at construction: stream redirected with rdbuf() afterwards',
    'C18-5': 'expected values in a no-match listing bypass the null guard: expectation with a null pointer as expected value',
    'C18-6': 'stream_sentry merges flags back instead of replacing them: user operator<< that leaves showpos / hex / boolalpha set',
    'C20-5': 'CO_THROW starts a fresh yield list: CO_YIELD clauses before CO_THROW are dropped',
    'C20-6': 'CO_THROW captures by reference: local changed between creation and evaluation',
    'C20-4': 'all CO_YIELD expressions evaluated up-front: a throwing non-first CO_YIELD, or LR_CO_YIELD reading state changed between resumes',
}


def main():
    os.makedirs(DST, exist_ok=True)
    rows = []
    for SRCD, off in ROUNDS:
      if not os.path.isdir(SRCD):
        continue
      for prop in sorted(os.listdir(SRCD)):
        d = os.path.join(SRCD, prop)
        if not os.path.isdir(d) or not prop.startswith('C'):
            continue
        for n in (1, 2):
            ev = os.path.join(d, 'eval%d.json' % n)
            if not os.path.exists(ev):
                continue
            try:
                r = json.load(open(ev))
            except Exception:
                continue
            sid = '%s-%d' % (prop, n + off)
            if not r.get('confirmed'):
                rows.append((sid, 'NOT CONFIRMED', r.get('caught_by')))
                continue
            out = os.path.join(DST, sid)
            os.makedirs(out, exist_ok=True)
            shutil.copy(os.path.join(d, 'patch%d.diff' % n), os.path.join(out, 'patch.diff'))
            shutil.copy(os.path.join(d, 'demo%d.cpp' % n), os.path.join(out, 'demo.cpp'))
            if os.path.exists(os.path.join(d, 'README.md')):
                shutil.copy(os.path.join(d, 'README.md'), os.path.join(out, 'README.md'))
            old_meta = {}
            if os.path.exists(os.path.join(out, 'meta.json')):
                old_meta = json.load(open(os.path.join(out, 'meta.json')))
            meta = dict(id=sid, property=prop, round=1 + off // 2,
                        author='independent sub-agent given only the property record and a scratch worktree' + ('' if off == 0 else ' (later rounds: also told, in one line each, which changes had already been made for the property)'),
                        needs_to_manifest=NEEDS.get(sid, ''),
                        confirmed=dict(applies=r.get('applies'), pinned_suite_passes_with_change=r.get('suite_passes_with_change'),
                                       demo_fails_with_change=r['demo_with_change'].get('failed'), demo_passes_without_change=not r['demo_without_change'].get('failed'),
                                       how='tools/seed_eval.py: scratch worktree of /repo HEAD, git apply, baseline.py (594 pinned tests), demo compiled and run against both trees'),
                        checks_run={c: dict(exit=x['exit'], violation_keys=x['keys'][:4]) for c, x in r['checks'].items()},
                        caught_by=r.get('caught_by'))
            for k in ('history', 'note', 'first_evaluation_caught_by'):
                if k in old_meta:
                    meta[k] = old_meta[k]
            json.dump(meta, open(os.path.join(out, 'meta.json'), 'w'), indent=1)
            rows.append((sid, 'confirmed', r.get('caught_by')))
    for row in rows:
        print(row)


if __name__ == '__main__':
    main()
