#!/usr/bin/env python3
"""Collect confirmed seeded changes from /tmp/seedout/<prop>/ (written by independent
sub-agents) into /verif/seeded/<id>/ : patch.diff, demo.cpp, README.md (the author's notes),
meta.json (property, what it needs to manifest, what was run, which checks caught it)."""
import json, os, shutil, sys

SRC = '/tmp/seedout'
DST = os.path.join(os.path.dirname(os.path.dirname(os.path.abspath(__file__))), 'seeded')

NEEDS = {
    'C01-1': 'call counted before the sequence check: an out-of-sequence (rejected) call of an IN_SEQUENCE expectation, then continued use (flag queries / further calls)',
    'C01-2': 'match_conditions returns after the first WITH: an expectation with >=2 WITH clauses called with arguments that satisfy the first but fail a later clause',
    'C02-1': 'find() never lowers lowest_cost: >=2 overlapping expectations that each sit behind pending optional/satisfied sequence steps (all costs > 0)',
    'C02-2': 'optional steps no longer counted in the sequence cost: older cheaper candidate vs newer candidate behind ALLOW_CALL steps',
    'C03-1': 'call counted before the sequence check: expectation with IN_SEQUENCE called too early, then flags queried / called again',
    'C03-2': 'move constructor of expectations<movable> leaves the saturated list behind: movable mock, saturated expectation, move, one more matching call (report no longer names the saturated expectation)',
    'C04-1': 'mock_destroyed ignores the already-reported flag: no-match listing names a short expectation, then the mock dies before the expectation',
    'C04-2': 'a handled call clears the already-reported flag: TIMES(>=2), a no-match call naming it, one handled call, then end of life while still short',
    'C05-1': 'monitor retires itself before its predecessors: optional/satisfied predecessor still pending at an in-order monitored destruction, then called again',
    'C05-2': 'order() sums per-sequence costs (unsigned wrap of ~0U): IN_SEQUENCE(s1,s2) expectation called while blocked in s1 and not first in s2',
    'C06-1': 'is_completed() looks only at the head: head satisfied but unsaturated (range bound / optional) with an unmet successor',
    'C06-2': 'retire_until retires one predecessor per call: >=2 skippable predecessors passed over by one call, successor called fewer times, sequence destroyed while expectations live',
    'C07-1': 'forbidden check skipped once `reported` is set: second hit of the same FORBID_CALL, or a no-match listing naming it followed by a matching call',
    'C07-2': 'forbidden check after increment_call: one caught forbidden hit, then is_saturated() queried',
    'C08-1': 'WITH clauses no longer stop at the first failure: >=2 WITH clauses, a call failing a non-last clause with an observable later clause',
    'C08-2': 'RETURN evaluated twice while a tracer is alive: tracer installed + non-void function with observable / non-idempotent RETURN expression',
    'C09-1': '_10 is a copy inside SIDE_EFFECT: arity >= 10 and identity of the 10th argument observed (write through T&, &_10, copy count)',
    'C09-2': '_6 is a copy inside RETURN: arity >= 6, RETURN(_6) on a reference-returning function / copy counts / writes in RETURN',
    'C10-1': 're() treats an empty string as null: empty non-null string with a regex that matches the empty string (also nested under ! / * / any_of ...)',
    'C10-2': 'all_of keeps only the last operand\'s verdict: a non-last operand rejects while the last accepts',
    'C11-1': 'range_includes (container form) lets one member satisfy several listed elements: repeated element in the list occurring fewer times in the range',
    'C11-2': 'range_ends_with (variadic) rejects a suffix that is the whole range: range exactly as long as the element list',
    'C12-1': 'lock released between find() and run_actions(): two threads calling a once-only expectation concurrently are both accepted (no data race - only an atomicity check sees it)',
    'C12-2': '~deathwatched notifies its monitor without the lock: expected death IN_SEQUENCE concurrent with another thread using the same sequence (TSan)',
    'C13-1': 'null_on_move copy constructor copies the monitor pointer: copy-construct a watched object from a *const* source while a requirement is alive, destroy the copy',
    'C13-2': '~lifetime_monitor clears the object slot even after the object died: require A, destroy A, release the requirement (write into freed object; reused storage un-watches B)',
    'C14-1': '~sequence_type unlinks retired handles without clearing their pointer: expectation passed over in a sequence, sequence destroyed, expectation called again (heap-use-after-free)',
    'C14-2': '~expectations<movable> decommissions `active` twice: movable mock dies while a saturated NAMED expectation is alive (abort in ignore_disposer)',
    'C15-1': 'no-match report lists only the first matching saturated expectation: >=2 saturated expectations that would match the unmatched call',
    'C15-2': 'exhausted-sequence mismatch always reported fatal: out-of-sequence monitored destruction against a sequence with no pending entries (fatal from a destructor)',
    'C16-1': 'OK report guarded by can_be_called() after retire(): the saturating call of an IN_SEQUENCE expectation gets no OK report',
    'C16-2': 'set_reporter(rf, orf) returns the new OK reporter: save / restore of the reporter pair',
    'C17-1': '~tracer restores nullptr instead of the previous tracer: nested tracer lifetimes, inner destroyed, then a call',
    'C17-2': 'run_actions moved out of the try block: exception thrown from a SIDE_EFFECT is traced without what() / unknown marker',
    'C18-1': 'stream_sentry does not restore a default fill: hex-dumped value into a stream with fill \' \' followed by padded output',
    'C18-2': 'hexdump walks the object as char: bytes >= 0x80 print sign-extended',
    'C20-1': 'yield list created by CO_RETURN not stored back: CO_RETURN placed before the first CO_YIELD drops all yields',
    'C20-2': 'yield cursor stored in the handler (per expectation) instead of the coroutine frame: >=2 calls on one expectation resumed interleaved',
}


def main():
    os.makedirs(DST, exist_ok=True)
    rows = []
    for prop in sorted(os.listdir(SRC)):
        d = os.path.join(SRC, prop)
        if not os.path.isdir(d) or not prop.startswith('C'):
            continue
        for n in (1, 2):
            ev = os.path.join(d, 'eval%d.json' % n)
            if not os.path.exists(ev):
                continue
            try:
                r = json.load(open(ev))
            except Exception:
                continue
            sid = '%s-%d' % (prop, n)
            if not r.get('confirmed'):
                rows.append((sid, 'NOT CONFIRMED', r.get('caught_by')))
                continue
            out = os.path.join(DST, sid)
            os.makedirs(out, exist_ok=True)
            shutil.copy(os.path.join(d, 'patch%d.diff' % n), os.path.join(out, 'patch.diff'))
            shutil.copy(os.path.join(d, 'demo%d.cpp' % n), os.path.join(out, 'demo.cpp'))
            if os.path.exists(os.path.join(d, 'README.md')):
                shutil.copy(os.path.join(d, 'README.md'), os.path.join(out, 'README.md'))
            meta = dict(id=sid, property=prop, author='independent sub-agent given only the property record and a scratch worktree',
                        needs_to_manifest=NEEDS.get(sid, ''),
                        confirmed=dict(applies=r.get('applies'), pinned_suite_passes_with_change=r.get('suite_passes_with_change'),
                                       demo_fails_with_change=r['demo_with_change'].get('failed'), demo_passes_without_change=not r['demo_without_change'].get('failed'),
                                       how='tools/seed_eval.py: scratch worktree of /repo HEAD, git apply, baseline.py (594 pinned tests), demo compiled and run against both trees'),
                        checks_run={c: dict(exit=x['exit'], violation_keys=x['keys'][:4]) for c, x in r['checks'].items()},
                        caught_by=r.get('caught_by'))
            json.dump(meta, open(os.path.join(out, 'meta.json'), 'w'), indent=1)
            rows.append((sid, 'confirmed', r.get('caught_by')))
    for row in rows:
        print(row)


if __name__ == '__main__':
    main()
