#!/usr/bin/env python3
"""Print the DESIGN.md table of seeded changes from /verif/seeded/*/meta.json."""
import json, os, glob
base = os.path.join(os.path.dirname(os.path.dirname(os.path.abspath(__file__))), 'seeded')
print('| id | property | needs to manifest | checks run (exit) | caught by |')
print('|----|----------|-------------------|-------------------|-----------|')
def _key(f):
    d = os.path.basename(os.path.dirname(f))
    a, b = d.split('-')
    return (a, int(b))
for f in sorted(glob.glob(os.path.join(base, '*', 'meta.json')), key=_key):
    m = json.load(open(f))
    runs = ', '.join('%s:%s' % (c, x['exit']) for c, x in sorted(m['checks_run'].items()))
    print('| %s | %s | %s | %s | %s |' % (m['id'], m['property'], m['needs_to_manifest'].replace('|', '/'), runs, ', '.join(m['caught_by']) or '**none**'))
