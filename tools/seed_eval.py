#!/usr/bin/env python3
"""Evaluate one seeded change: confirm it (applies, pinned suite still passes, demonstration
fails with it and passes without it) in a scratch worktree outside /repo and /verif, then run
the quick checks against that worktree (VERIF_REPO) and record which ones report a violation.

usage: seed_eval.py <patch.diff> <demo.cpp> <prop-id> [--checks C01,C05,...] [--skip-confirm] [--tier quick]
Prints a JSON summary; exit 0 if the change is confirmed and caught by the check of <prop-id>."""
import argparse, json, os, re, shutil, subprocess, sys, tempfile, time

VERIF = os.path.dirname(os.path.dirname(os.path.abspath(__file__)))


def sh(cmd, **kw):
    return subprocess.run(cmd, shell=isinstance(cmd, str), stdout=subprocess.PIPE, stderr=subprocess.STDOUT, text=True, **kw)


def demo_cmd(demo, inc, exe):
    txt = open(demo).read()
    flags = '-std=c++17 -O0 -g'
    if 'fsanitize=thread' in txt:
        flags += ' -fsanitize=thread'
    elif 'fsanitize=address' in txt:
        flags += ' -fsanitize=address'
    if 'c++20' in txt or 'coroutine' in txt:
        flags = flags.replace('c++17', 'c++20')
    if 'pthread' in txt or '<thread>' in txt:
        flags += ' -pthread'
    return 'g++ %s -I%s %s -o %s' % (flags, inc, os.path.basename(demo), exe)   # compiled from its own directory: __FILE__ is the bare name


def run_demo(demo, inc, tag):
    exe = tempfile.mktemp(prefix='demo_%s_' % tag)
    r = sh(demo_cmd(demo, inc, exe), cwd=os.path.dirname(os.path.abspath(demo)))
    if r.returncode:
        return dict(compiled=False, out=r.stdout[-1500:])
    rcs = []
    outs = ''
    n = 5 if 'thread' in open(demo).read() else 1
    for _ in range(n):
        try:
            p = subprocess.run([exe], stdout=subprocess.PIPE, stderr=subprocess.STDOUT, text=True, timeout=120)
            rcs.append(p.returncode)
            outs = p.stdout[-800:]
        except subprocess.TimeoutExpired:
            rcs.append(-9)
    os.unlink(exe)
    return dict(compiled=True, exit_codes=rcs, failed=any(rc != 0 for rc in rcs), out=outs)


def main():
    ap = argparse.ArgumentParser()
    ap.add_argument('patch'); ap.add_argument('demo'); ap.add_argument('prop')
    ap.add_argument('--checks', default='')
    ap.add_argument('--skip-confirm', action='store_true')
    ap.add_argument('--tier', default='quick')
    ap.add_argument('--seed', default='1')
    a = ap.parse_args()
    wt = tempfile.mkdtemp(prefix='seedwt_', dir='/tmp')
    os.rmdir(wt)
    res = dict(patch=a.patch, prop=a.prop)
    try:
        r = sh('git -C /repo worktree add --detach %s HEAD' % wt)
        if r.returncode:
            print(r.stdout); return 2
        r = sh('git -C %s apply %s' % (wt, os.path.abspath(a.patch)))
        res['applies'] = r.returncode == 0
        if r.returncode:
            res['apply_error'] = r.stdout[-800:]
            print(json.dumps(res, indent=1)); return 2
        if not a.skip_confirm:
            env = dict(os.environ, VERIF_REPO=wt)
            r = sh('python3 %s/baseline.py' % VERIF, env=env)
            res['suite_passes_with_change'] = r.returncode == 0
            res['suite_tail'] = r.stdout[-300:]
            res['demo_with_change'] = run_demo(a.demo, wt + '/include', 'mut')
            res['demo_without_change'] = run_demo(a.demo, '/repo/include', 'orig')
            res['confirmed'] = bool(res['suite_passes_with_change'] and res['demo_with_change'].get('failed') and
                                    res['demo_without_change'].get('compiled') and not res['demo_without_change'].get('failed'))
        checks = [c for c in a.checks.split(',') if c] or [a.prop]
        res['checks'] = {}
        for c in checks:
            t0 = time.time()
            env = dict(os.environ, VERIF_REPO=wt, VERIF_SEED=a.seed)
            r = sh('./check %s --tier %s' % (c, a.tier), cwd=VERIF, env=env)
            keys = re.findall(r'^  (\S[^:]*?): ', r.stdout, re.M)
            res['checks'][c] = dict(exit=r.returncode, wall=round(time.time() - t0, 1), violations=r.stdout.count('VIOLATION property='),
                                    keys=keys[:8], tail=r.stdout[-600:] if r.returncode not in (0, 1) else '')
        res['caught_by'] = sorted(c for c, x in res['checks'].items() if x['exit'] == 1)
    finally:
        sh('git -C /repo worktree remove --force %s' % wt)
        shutil.rmtree(wt, ignore_errors=True)
    print(json.dumps(res, indent=1))
    return 0 if res.get('caught_by') and a.prop in res['caught_by'] else 1


if __name__ == '__main__':
    sys.exit(main())
