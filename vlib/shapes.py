"""Expectation shape table: everything about an expectation that is a *type* is fixed per
shape; everything else is a run-time parameter (see drivers/scen/harness.hpp Params).

generate(outdir) writes shapes_NN.cpp translation units plus shapes.json (metadata the
reference model needs: bounds, clause counts, file/line/text of every slot)."""
import json, os, random, itertools, hashlib

GEN_VERSION = 7
INF = -1

LIMS = {
    # name: (macro, clause text, L, H, runtime)
    'none':  ('REQ', '', 1, 1, False),
    't2':    ('REQ', '.TIMES(2)', 2, 2, False),
    't13':   ('REQ', '.TIMES(1,3)', 1, 3, False),
    't02':   ('REQ', '.TIMES(0,2)', 0, 2, False),
    'atl1':  ('REQ', '.TIMES(AT_LEAST(1))', 1, INF, False),
    'atl2':  ('REQ', '.TIMES(AT_LEAST(2))', 2, INF, False),
    'atm2':  ('REQ', '.TIMES(AT_MOST(2))', 0, 2, False),
    'rt':    ('REQ', '.RT_TIMES(p.lo,p.hi)', None, None, True),
    'rt1':   ('REQ', '.RT_TIMES(p.lo)', None, None, True),
    'allow': ('ALLOW', '', 0, INF, False),
    'forbid': ('FORBID', '', 0, 0, False),
    't0':    ('REQ', '.TIMES(0)', 0, 0, False),
}

INT_MK = ['wild', 'lit', 'eq', 'ne', 'lt', 'le', 'gt', 'ge', 'ANY', 'set', 'tset']
FN_MK = {
    'f': INT_MK, 'v': INT_MK, 'c': INT_MK, 'r': ['wild', 'ANYr', 'set', 'ne'],
    'gi': ['lit', 'eq', 'lt', 'ge', 'ANYi', 'set', 'tset'],
    'gs': ['slit', 'seq', 'ANYs', 'sset'],
    'h': ['wild', 'lit', 'set', 'eq', 'gt'],
}
H_MK2 = ['wild', 'lit2', 'set2']


def mk_expr(mk):
    return {
        'wild': '_', 'lit': 'p.val', 'eq': 'trompeloeil::eq(p.val)', 'ne': 'trompeloeil::ne(p.val)',
        'lt': 'trompeloeil::lt(p.val)', 'le': 'trompeloeil::le(p.val)', 'gt': 'trompeloeil::gt(p.val)',
        'ge': 'trompeloeil::ge(p.val)', 'ANY': 'ANY(int)', 'ANYi': 'ANY(int)', 'set': 'mset(p.mask,p.id)',
        'tset': 'tset(p.mask,p.id)', 'slit': 'sval(p.val)', 'seq': 'trompeloeil::eq(sval(p.val))',
        'ANYs': 'ANY(std::string const&)', 'ANYr': 'ANY(int&)', 'sset': 'sset(p.mask,p.id)',
        'lit2': 'p.val2', 'set2': 'mset(p.mask2,p.id)',
    }[mk]


def fn_call_name(fn):
    return {'gi': 'g', 'gs': 'g'}.get(fn, fn)


def valid(s):
    lim = s['lim']
    fn = s['fn']
    if s['mk'] not in FN_MK[fn]:
        return False
    if fn == 'h' and s.get('mk2') not in H_MK2:
        return False
    if fn != 'h' and s.get('mk2') is not None:
        return False
    if lim in ('forbid', 't0'):
        if s['ns'] or s['act'] != 'none' or s['nq']:
            return False
    else:
        if fn == 'v':
            if s['act'] not in ('none', 'tstd', 'tint'):
                return False
        elif fn == 'r':
            if s['act'] not in ('retref', 'tstd'):
                return False
        else:
            if s['act'] not in ('ret', 'lrret', 'tstd', 'tint'):
                return False
    if s['cls'] == 'N' and fn not in ('f', 'v'):
        return False
    if s.get('vform') and s['mk'].startswith('ANY'):
        return False   # in the _V spelling the ANY(...) macro is expanded before it is stringified: the text differs
    if s.get('vform') and s['lim'] == 'forbid' and s['nw'] > 0 and fn != 'v':
        return False   # _V forbid with clauses only on void functions: a changed macro body then shows at run time, not as a build failure
    return True


def chain(s):
    """Clause chain text (after the NAMED_ macro), all on one line."""
    macro, limtxt, L, H, rt = LIMS[s['lim']]
    withs = [('.LR_WITH' if s['wlr'] else '.WITH') + '(H::with(p,%d,_%d))' % (i, 2 if s['fn'] == 'h' else 1)
             for i in range(s['nw'])]
    sefn = 'H::sew' if s['fn'] == 'r' else 'H::se'   # r(int&): the side effect may write through the reference parameter
    ses = [('.LR_SIDE_EFFECT' if s['slr'] else '.SIDE_EFFECT') + '(%s(p,%d,_1))' % (sefn, i) for i in range(s['ns'])]
    if s['cord'] == 'ws':
        mid = withs + ses
    elif s['cord'] == 'sw':
        mid = ses + withs
    else:
        mid = [x for pair in itertools.zip_longest(withs, ses) for x in pair if x]
    act = {'none': [], 'ret': ['.RETURN(H::ret(p,_1))'], 'lrret': ['.LR_RETURN(H::ret(p,_1))'],
           'retref': ['.LR_RETURN(H::retref(p,_1))'],
           'tstd': ['.THROW(H::thr_std(p,_1))'], 'tint': ['.LR_THROW(H::thr_int(p,_1))']}[s['act']]
    mid = act + mid if s['apos'] == 'first' else mid + act
    seq = []
    if s['nq'] == 1:
        seq = ['.IN_SEQUENCE(*p.seq[0])']
    elif s['nq'] == 2:
        seq = ['.IN_SEQUENCE(*p.seq[0],*p.seq[1])']
    lim = [limtxt] if limtxt else []
    ls = lim + seq if s['lim_first'] else seq + lim
    return ''.join(ls + mid if s['ls_front'] else mid + ls)


def expr(s, tagno):
    macro = {'REQ': 'NAMED_REQUIRE_CALL', 'ALLOW': 'NAMED_ALLOW_CALL', 'FORBID': 'NAMED_FORBID_CALL'}[LIMS[s['lim']][0]]
    tagf = 'tag' if s['cls'] == 'M' else 'tagn'
    obj = '%s<%d>(m)' % (tagf, tagno)
    if s['fn'] == 'h':
        func = 'h(%s,%s)' % (mk_expr(s['mk']), mk_expr(s['mk2']))
    else:
        func = '%s(%s)' % (fn_call_name(s['fn']), mk_expr(s['mk']))
    if s.get('vform'):
        # the variadic (C++11-style) macro spelling: clauses are passed as one macro argument
        ch = chain(s)
        return '%s_V(%s, %s%s)' % (macro, obj, func, (', ' + ch) if ch else ''), obj + '.' + func
    return '%s(%s, %s)%s' % (macro, obj, func, chain(s)), obj + '.' + func


def base(**kw):
    s = dict(cls='M', fn='f', mk='set', mk2=None, nw=0, wlr=False, ns=0, slr=False, act='ret', lim='rt',
             nq=0, lim_first=True, ls_front=False, cord='ws', apos='last', nslots=1, core=None, vform=False)
    s.update(kw)
    return s


def core_shapes():
    c = []
    c.append(base(core='f_rt', nslots=4))
    c.append(base(core='f_rt_q1_seqfirst', nq=1, lim_first=False, nslots=4))
    c.append(base(core='f_rt_q1_limfirst', nq=1, lim_first=True, nslots=4))
    c.append(base(core='f_rt_q2', nq=2, nslots=3))
    c.append(base(core='f_forbid', lim='forbid', act='none', nslots=3))
    c.append(base(core='v_rt', fn='v', act='none', nslots=2))
    c.append(base(core='v_rt_q1', fn='v', act='none', nq=1, nslots=2))
    c.append(base(core='f_rt_w1s1', nw=1, ns=1, nslots=3))
    c.append(base(core='f_rt_tstd', act='tstd', nslots=2))
    c.append(base(core='n_f_rt', cls='N', nslots=2))
    c.append(base(core='n_f_rt_q1', cls='N', nq=1, nslots=2))
    c.append(base(core='f_rt_w2s3', nw=2, ns=3, cord='mix', nslots=2))
    c.append(base(core='f_rt_w3s2_lr', nw=3, ns=2, wlr=True, slr=True, cord='sw', nslots=2))
    c.append(base(core='f_allow', lim='allow', nslots=2))
    c.append(base(core='f_allow_q1', lim='allow', nq=1, nslots=2))
    c.append(base(core='f_none_q1', lim='none', nq=1, nslots=2))
    c.append(base(core='f_t0', lim='t0', act='none', nslots=2))
    c.append(base(core='gi_rt', fn='gi', nslots=2))
    c.append(base(core='gs_rt', fn='gs', mk='sset', nslots=2))
    c.append(base(core='h_rt', fn='h', mk='set', mk2='set2', nslots=2))
    c.append(base(core='r_rt', fn='r', act='retref', nslots=2))
    c.append(base(core='c_rt', fn='c', nslots=2))
    c.append(base(core='v_rt_tint', fn='v', act='tint', nslots=1))
    c.append(base(core='f_rt_s3', ns=3, nslots=2))
    # keep new core shapes at the end: ids of the earlier ones stay stable
    c.append(base(core='f_rt_v', vform=True, nslots=2))
    c.append(base(core='v_forbid_v_w1', fn='v', lim='forbid', act='none', nw=1, vform=True, nslots=2))
    c.append(base(core='f_allow_v_s1', lim='allow', ns=1, vform=True, nslots=2))
    c.append(base(core='v_forbid_v', fn='v', lim='forbid', act='none', vform=True, nslots=1))
    c.append(base(core='v_rt_s1', fn='v', act='none', ns=1, nslots=2))
    return c


ATTRS = {
    'fn': ['f', 'v', 'gi', 'gs', 'h', 'r', 'c'],
    'mk': sorted(set(sum(FN_MK.values(), []))),
    'nw': [0, 1, 2, 3], 'wlr': [False, True],
    'ns': [0, 1, 2, 3], 'slr': [False, True],
    'act': ['none', 'ret', 'lrret', 'retref', 'tstd', 'tint'],
    'lim': list(LIMS),
    'nq': [0, 1, 2], 'lim_first': [False, True], 'ls_front': [False, True],
    'cord': ['ws', 'sw', 'mix'], 'apos': ['first', 'last'], 'vform': [False, True],
}


def random_shape(rng):
    for _ in range(1000):
        s = base(nslots=1)
        for k, dom in ATTRS.items():
            s[k] = rng.choice(dom)
        s['mk2'] = rng.choice(H_MK2) if s['fn'] == 'h' else None
        if valid(s):
            return s
    raise RuntimeError('no valid shape')


def pairs_of(s):
    keys = list(ATTRS)
    out = set()
    for i in range(len(keys)):
        for j in range(i + 1, len(keys)):
            out.add((keys[i], s[keys[i]], keys[j], s[keys[j]]))
    return out


def feasible_pairs(rng):
    seen = set()
    for _ in range(60000):
        seen |= pairs_of(random_shape(rng))
    return seen


def pairwise_shapes():
    rng = random.Random(20261002)
    todo = feasible_pairs(rng)
    out = []
    for s in core_shapes():
        todo -= pairs_of(s)
    while todo:
        best, bestc = None, -1
        for _ in range(400):
            s = random_shape(rng)
            c = len(pairs_of(s) & todo)
            if c > bestc:
                best, bestc = s, c
        if bestc <= 0:
            # directed: build around one uncovered pair
            k1, v1, k2, v2 = min(todo, key=repr)
            for _ in range(20000):
                s = random_shape(rng)
                if s[k1] == v1 and s[k2] == v2:
                    best = s
                    break
            else:
                todo.discard((k1, v1, k2, v2))
                continue
        out.append(best)
        todo -= pairs_of(best)
    return out


def all_shapes():
    shapes = core_shapes() + pairwise_shapes()
    # a few non-movable-class variety shapes
    rng = random.Random(77)
    n = 0
    while n < 6:
        s = random_shape(rng)
        if s['fn'] in ('f', 'v') and s['mk'] in INT_MK:
            s['cls'] = 'N'
            shapes.append(s)
            n += 1
    for i, s in enumerate(shapes):
        s['id'] = i
        macro, limtxt, L, H, rt = LIMS[s['lim']]
        s['L'], s['H'], s['rt'] = L, H, rt
        assert valid(s), s
    return shapes


MON_SITES = []  # (site, cls, nseq)
for _cls in 'WP':
    for _nseq in (0, 1, 2):
        for _k in range(2):
            MON_SITES.append((len(MON_SITES), _cls, _nseq))

PER_TU = 9


def generate(outdir, core_only=False):
    os.makedirs(outdir, exist_ok=True)
    shapes = all_shapes()
    if core_only:
        shapes = [s for s in shapes if s['core']]
    meta = {'gen_version': GEN_VERSION, 'shapes': [], 'mon_sites': [], 'files': []}
    units = []
    cur, cnt = [], 0
    for s in shapes:
        if cnt + s['nslots'] > PER_TU and cur:
            units.append(cur)
            cur, cnt = [], 0
        cur.append(s)
        cnt += s['nslots']
    if cur:
        units.append(cur)
    hdr = ['// generated by vlib/shapes.py -- do not edit', '#include "harness.hpp"', 'using trompeloeil::_;', '']
    for ui, unit in enumerate(units):
        fname = 'shapes_%02d.cpp' % ui
        lines = list(hdr)
        for s in unit:
            s['slots'] = []
            for slot in range(s['nslots']):
                tagno = s['id'] * 10 + slot
                ex, text = expr(s, tagno)
                ctype = 'MockM' if s['cls'] == 'M' else 'MockN'
                fnname = 'shape_%d_%d' % (s['id'], slot)
                lines.append('static exp_ptr %s(void* o, Params& p) { %s& m = *static_cast<%s*>(o); (void)p;' % (fnname, ctype, ctype))
                lines.append('  return %s;' % ex)
                s['slots'].append({'slot': slot, 'file': fname, 'line': len(lines), 'text': text})
                lines.append('}')
                lines.append("static ShapeReg reg_%d_%d(%d, %d, '%s', &%s);" % (s['id'], slot, s['id'], slot, s['cls'], fnname))
        with open(os.path.join(outdir, fname), 'w') as f:
            f.write('\n'.join(lines) + '\n')
        meta['files'].append(fname)
    # monitor sites
    fname = 'shapes_mon.cpp'
    lines = ['// generated by vlib/shapes.py -- do not edit', '#include "harness.hpp"', '']
    for site, cls, nseq in MON_SITES:
        ctype = 'WatchM' if cls == 'W' else 'WatchP'
        tagf = 'tagw' if cls == 'W' else 'tagp'
        obj = '%s<%d>(w)' % (tagf, site)
        seq = ['', '.IN_SEQUENCE(*p.seq[0])', '.IN_SEQUENCE(*p.seq[0],*p.seq[1])'][nseq]
        lines.append('static exp_ptr mon_%d(void* o, Params& p) { %s& w = *static_cast<%s*>(o); (void)p;' % (site, ctype, ctype))
        lines.append('  return NAMED_REQUIRE_DESTRUCTION(%s)%s;' % (obj, seq))
        meta['mon_sites'].append({'site': site, 'cls': cls, 'nseq': nseq, 'file': fname, 'line': len(lines),
                                  'obj_text': obj, 'text': 'NAMED_REQUIRE_DESTRUCTION(%s)' % obj})
        lines.append('}')
        lines.append("static MonReg mreg_%d(%d, '%s', %d, &mon_%d);" % (site, site, cls, nseq, site))
    with open(os.path.join(outdir, fname), 'w') as f:
        f.write('\n'.join(lines) + '\n')
    meta['files'].append(fname)
    for s in shapes:
        meta['shapes'].append({k: s[k] for k in ('id', 'cls', 'fn', 'mk', 'mk2', 'nw', 'wlr', 'ns', 'slr', 'act', 'lim',
                                                  'L', 'H', 'rt', 'nq', 'lim_first', 'ls_front', 'cord', 'apos', 'core', 'vform', 'slots')})
    with open(os.path.join(outdir, 'shapes.json'), 'w') as f:
        json.dump(meta, f, indent=0, sort_keys=True)
    return meta


if __name__ == '__main__':
    import sys
    m = generate(sys.argv[1])
    print(len(m['shapes']), 'shapes', sum(len(s['slots']) for s in m['shapes']), 'expressions', len(m['files']), 'files')
