"""Exhaustive small-scope enumerators. Each enumerator yields *every* operation history of
its scope (a list of ops); chunk c of n takes histories c, c+n, c+2n, ... so that all
chunks together cover the scope exactly once."""
import itertools
from . import engine

INF = -1


def core_ids(meta):
    return {s['core']: s for s in meta['shapes'] if s['core']}


class Ctx:
    """id allocator + slot allocator for hand-built histories"""
    def __init__(self, meta):
        self.core = core_ids(meta)
        self.n = 1
        self.used = {}

    def id(self):
        self.n += 1
        return self.n

    def slot(self, core):
        s = self.core[core]
        k = self.used.get(core, 0)
        self.used[core] = k + 1
        if k >= len(s['slots']):
            raise IndexError('out of slots for ' + core)
        return s['id'], k

    def free_all(self):
        self.used = {}


SEQ_SHAPE = {0: 'f_rt', 1: 'f_rt_q1_limfirst', 2: 'f_rt_q2'}
SEQ_SHAPE_ALT = {0: 'f_rt', 1: 'f_rt_q1_seqfirst', 2: 'f_rt_q2'}

BOUNDS5 = [(1, 1), (0, 1), (0, INF), (1, 2), (2, 2)]
BOUNDS4 = [(1, 1), (0, 1), (0, INF), (1, 2)]


def teardown(ops, exps, objs, seqs, tracers=()):
    for t in reversed(list(tracers)):
        ops.append(('rmtr', t))
    for e in exps:
        ops.append(('rmexp', e))
    for o in objs:
        ops.append(('rmobj', o))
    for s in seqs:
        ops.append(('rmseq', s))


# ---- C05 / C06 / C02: sequenced entries --------------------------------------------------------
def enum_sequences(meta, tier, variant, sel):
    """k=3 entries; each entry is an expectation on f accepting exactly its own argument (variant
    'own') or overlapping arguments (variant 'overlap'), or (variant 'mon') entry 3 is a destruction
    requirement; membership of each entry in a subset of 2 sequences; bounds from a menu; every
    call/destruction string of a fixed length (all shorter strings are its prefixes and every step
    is checked)."""
    quick = tier == 'quick'
    bounds = BOUNDS4 if quick else BOUNDS5
    slen = 3 if quick else (5 if variant == 'own' else 4)
    members = [(), (0,), (1,), (0, 1)]
    k = 3
    if variant == 'overlap':
        masks = [0b0111, 0b0011, 0b0001]   # entry i accepts args < 3-i: wildcard-ish, narrower, literal
    else:
        masks = [0b0001, 0b0010, 0b0100]
    altshape = False
    for mem in itertools.product(members, repeat=k):
        if not any(mem):
            continue
        for bnd in itertools.product(bounds, repeat=k if variant not in ('mon', 'monu') else k - 1):
            for calls in itertools.product(range(k), repeat=slen):
                altshape = not altshape
                if sel.skip(): continue
                c = Ctx(meta)
                ops = []
                o = c.id(); ops.append(('obj', o, 'M'))
                s = [c.id(), c.id()]
                ops.append(('seq', s[0])); ops.append(('seq', s[1]))
                exps, watched = [], None
                kinds = []
                if variant == 'monu':
                    # an older unsequenced catch-all: every call is also accepted by it, the sequenced one must win
                    shu, slotu = c.slot('f_allow'); eu = c.id()
                    ops.append(('exp', eu, shu, slotu, o, dict(mask=15, val=0))); exps.append(eu)
                for i in range(k):
                    if variant in ('mon', 'monu') and i == 1:
                        w = c.id(); ops.append(('obj', w, 'P'))
                        site = [st for st in meta['mon_sites'] if st['cls'] == 'P' and st['nseq'] == len(mem[i])][0]
                        e = c.id()
                        ops.append(('mon', e, site['site'], w) + tuple(s[j] for j in mem[i]))
                        watched = w
                        kinds.append('mon')
                    else:
                        table = SEQ_SHAPE_ALT if altshape else SEQ_SHAPE
                        sh, slot = c.slot(table[len(mem[i])])
                        e = c.id()
                        bi = len([x for x in kinds if x == 'exp'])
                        p = dict(mask=masks[i], lo=bnd[bi][0], hi=bnd[bi][1], val=0)
                        for j, sj in enumerate(mem[i]):
                            p['s%d' % j] = s[sj]
                        ops.append(('exp', e, sh, slot, o, p))
                        kinds.append('exp')
                    exps.append(e)
                dead = False
                for ci in calls:
                    if kinds[ci] == 'mon':
                        if dead:
                            ops.append(('call', o, 'f', 3))   # a call nothing accepts: state must not change
                        else:
                            ops.append(('rmobj', watched)); dead = True
                    else:
                        ops.append(('call', o, 'f', ci if variant != 'overlap' else 2 - ci))
                objs = [o] + ([watched] if watched is not None and not dead else [])
                teardown(ops, exps, objs, s)
                yield ops


# ---- C06: sequence torn down while entries pend --------------------------------------------------
def enum_seq_teardown(meta, tier, sel):
    quick = tier == 'quick'
    bounds = BOUNDS4 if quick else BOUNDS5
    slen = 2 if quick else 3
    k = 3
    for nseq_mem in itertools.product([(0,), (1,), (0, 1)], repeat=k):
        for bnd in itertools.product(bounds, repeat=k):
            for calls in itertools.product(range(k), repeat=slen):
                for first in (0, 1):
                    if sel.skip(): continue
                    c = Ctx(meta)
                    ops = []
                    o = c.id(); ops.append(('obj', o, 'M'))
                    s = [c.id(), c.id()]
                    ops.append(('seq', s[0])); ops.append(('seq', s[1]))
                    exps = []
                    for i in range(k):
                        sh, slot = c.slot(SEQ_SHAPE[len(nseq_mem[i])])
                        e = c.id()
                        p = dict(mask=1 << i, lo=bnd[i][0], hi=bnd[i][1], val=0)
                        for j, sj in enumerate(nseq_mem[i]):
                            p['s%d' % j] = s[sj]
                        ops.append(('exp', e, sh, slot, o, p))
                        exps.append(e)
                    for ci in calls:
                        ops.append(('call', o, 'f', ci))
                    # release one expectation first in half of the cases (it must not be listed)
                    rel = exps[calls[0]] if first else None
                    if rel is not None:
                        ops.append(('rmexp', rel))
                    ops.append(('rmseq', s[first]))        # compared: lists exactly the pending entries
                    ops.append(('rmseq', s[1 - first]))    # after the cut: executed, memory-safety only
                    teardown(ops, [e for e in exps if e != rel], [o], [])
                    yield ops


# ---- C03: bounds ------------------------------------------------------------------------------------
def enum_bounds(meta, tier, sel):
    pairs = [(L, H) for L in range(0, 5) for H in range(L, 5)] + [(L, INF) for L in range(0, 5)]
    for (L, H) in pairs:
        top = (H if H != INF else L) + 2
        for stacking in ('alone', 'under_newer', 'over_older', 'sequenced', 'sequenced_seqfirst'):
            for n in range(0, top + 1):
                if sel.skip(): continue
                c = Ctx(meta)
                ops = []
                o = c.id(); ops.append(('obj', o, 'M'))
                exps, seqs = [], []
                if stacking == 'over_older':
                    sh, slot = c.slot('f_rt'); e = c.id()
                    ops.append(('exp', e, sh, slot, o, dict(mask=15, lo=0, hi=INF, val=0))); exps.append(e)
                if stacking.startswith('sequenced'):
                    s = c.id(); ops.append(('seq', s)); seqs.append(s)
                    sh, slot = c.slot('f_rt_q1_limfirst' if stacking == 'sequenced' else 'f_rt_q1_seqfirst'); e = c.id()
                    ops.append(('exp', e, sh, slot, o, dict(mask=1, lo=L, hi=H, val=0, s0=s)))
                else:
                    sh, slot = c.slot('f_rt'); e = c.id()
                    ops.append(('exp', e, sh, slot, o, dict(mask=1, lo=L, hi=H, val=0)))
                exps.append(e)
                if stacking == 'under_newer':
                    sh, slot = c.slot('f_rt'); e2 = c.id()
                    ops.append(('exp', e2, sh, slot, o, dict(mask=6, lo=0, hi=INF, val=0))); exps.append(e2)
                for _ in range(n):
                    ops.append(('call', o, 'f', 0))
                teardown(ops, exps, [o], seqs)
                yield ops
    # inverted run-time bounds, with and without a preceding IN_SEQUENCE, followed by normal life
    for lo in range(1, 5):
        for hi in range(0, lo):
            for core in ('f_rt', 'f_rt_q1_limfirst', 'f_rt_q1_seqfirst', 'f_rt_q2', 'v_rt_q1'):
                if sel.skip(): continue
                c = Ctx(meta)
                ops = []
                o = c.id(); ops.append(('obj', o, 'M'))
                s = [c.id(), c.id()]; ops.append(('seq', s[0])); ops.append(('seq', s[1]))
                sh, slot = c.slot(core); e = c.id()
                nq = c.core[core]['nq']
                p = dict(mask=1, lo=lo, hi=hi, val=0)
                for j in range(nq):
                    p['s%d' % j] = s[j]
                ops.append(('exp', e, sh, slot, o, p))
                fn = c.core[core]['fn']
                ops.append(('call', o, fn, 0))
                # a later, valid expectation in the same sequence behaves as if the failed statement never existed
                sh2, slot2 = c.slot('f_rt_q1_limfirst'); e2 = c.id()
                ops.append(('exp', e2, sh2, slot2, o, dict(mask=1, lo=1, hi=1, val=0, s0=s[0])))
                ops.append(('call', o, 'f', 0))
                teardown(ops, [e2], [o], s)
                yield ops
    # compile-time limit forms: every non-runtime shape called 0..H+2 times with an accepted argument
    for sh in meta['shapes']:
        if sh['rt'] or sh['cls'] != 'M':
            continue
        H = sh['H']
        top = (H if H != INF else sh['L']) + 2
        for n in range(0, min(top, 5) + 1):
            if sel.skip(): continue
            c = Ctx(meta)
            ops = []
            o = c.id(); ops.append(('obj', o, 'M'))
            s = [c.id(), c.id()]; ops.append(('seq', s[0])); ops.append(('seq', s[1]))
            e = c.id()
            p = dict(mask=15, mask2=15, val=1, val2=1)
            for i in range(sh['nw']):
                p['w%d' % i] = 15
            for j in range(sh['nq']):
                p['s%d' % j] = s[j]
            ops.append(('exp', e, sh['id'], 0, o, p))
            arg = {'lit': 1, 'eq': 1, 'slit': 1, 'seq': 1, 'ne': 2, 'lt': 0, 'le': 1, 'gt': 2, 'ge': 1}.get(sh['mk'], 1)
            for _ in range(n):
                ops.append(('call', o, sh['fn'], arg, 1) if sh['fn'] == 'h' else ('call', o, sh['fn'], arg))
            teardown(ops, [e], [o], s)
            yield ops


# ---- generic string enumeration with legality filter -----------------------------------------------
def strings(alphabet, maxlen, exact=False):
    lens = [maxlen] if exact else range(1, maxlen + 1)
    for n in lens:
        for t in itertools.product(alphabet, repeat=n):
            yield t


# ---- C04: lifetime orders ------------------------------------------------------------------------------
def enum_lifetime(meta, tier, sel):
    quick = tier == 'quick'
    menu = [(1, 1), (0, 1), (2, 2), (1, INF)] if quick else [(1, 1), (0, 1), (2, 2), (1, INF), (2, 3), (0, 0)]
    slen = 4 if quick else 5
    alpha = ['rel_a', 'relx_a', 'rel_b', 'rmobj', 'mv', 'hit_a', 'hit_b', 'miss']
    for ba in menu:
        for bb in menu:
            for st in strings(alpha, slen, exact=True):
                if sel.skip(): continue
                c = Ctx(meta)
                ops = []
                o = c.id(); ops.append(('obj', o, 'M'))
                sh, slot = c.slot('f_rt'); a = c.id()
                ops.append(('exp', a, sh, slot, o, dict(mask=1, lo=ba[0], hi=ba[1], val=0)))
                sh, slot = c.slot('f_rt'); b = c.id()
                ops.append(('exp', b, sh, slot, o, dict(mask=2, lo=bb[0], hi=bb[1], val=0)))
                live = {a, b}
                cur, objs = o, [o]
                ok = True
                for sym in st:
                    if sym in ('rel_a', 'relx_a'):
                        if a not in live: ok = False; break
                        ops.append(('rmexp' if sym == 'rel_a' else 'rmexpx', a)); live.discard(a)
                    elif sym == 'rel_b':
                        if b not in live: ok = False; break
                        ops.append(('rmexp', b)); live.discard(b)
                    elif sym == 'rmobj':
                        if cur is None: ok = False; break
                        ops.append(('rmobj', cur)); objs.remove(cur); cur = None
                    elif sym == 'mv':
                        if cur is None or len(objs) > 2: ok = False; break
                        n = c.id(); ops.append(('mvobj', n, cur)); objs.append(n); cur = n
                    else:
                        if cur is None: ok = False; break
                        ops.append(('call', cur, 'f', {'hit_a': 0, 'hit_b': 1, 'miss': 3}[sym]))
                if not ok:
                    continue
                teardown(ops, sorted(live), [], [])
                for x in objs:
                    ops.append(('rmobj', x))
                yield ops


# ---- C13: watched objects ---------------------------------------------------------------------------------
def enum_deathwatch(meta, tier, sel):
    quick = tier == 'quick'
    slen = 5 if quick else 6
    alpha = ['mon1', 'mon2', 'rel1', 'rel2', 'die1', 'die2', 'diex1', 'cp1', 'cpc1', 'mv1', 'as12', 'as21', 'asmv12', 'die3']
    sites = [st for st in meta['mon_sites'] if st['cls'] == 'P']
    s0 = [st['site'] for st in sites if st['nseq'] == 0]
    s1 = [st['site'] for st in sites if st['nseq'] == 1]
    for withseq in (False, True):
        for st in strings(alpha, slen, exact=True):
            if sel.skip(): continue
            c = Ctx(meta)
            ops = []
            o1, o2 = c.id(), c.id()
            ops.append(('obj', o1, 'P')); ops.append(('obj', o2, 'P'))
            sq = None
            if withseq:
                sq = c.id(); ops.append(('seq', sq))
            alive = {1: o1, 2: o2}
            mon = {1: None, 2: None}
            mons_live = []
            free0, free1 = list(s0), list(s1)
            third = None
            ok = True
            for sym in st:
                k = int(sym[-1]) if sym[-1] in '12' and not sym.startswith('as') else None
                if sym.startswith('mon'):
                    if alive[k] is None or mon[k] is not None: ok = False; break
                    pool = free1 if withseq else free0
                    if not pool: ok = False; break
                    site = pool.pop(0)
                    e = c.id()
                    ops.append(('mon', e, site, alive[k]) + ((sq,) if withseq else ()))
                    mon[k] = (e, site); mons_live.append(e)
                elif sym.startswith('rel'):
                    if mon[k] is None: ok = False; break
                    e, site = mon[k]
                    ops.append(('rmexp', e)); mons_live.remove(e); mon[k] = None
                    (free1 if withseq else free0).append(site)
                elif sym in ('die1', 'die2', 'diex1'):
                    if alive[k] is None: ok = False; break
                    ops.append(('rmobjx' if sym == 'diex1' else 'rmobj', alive[k])); alive[k] = None   # diex: dies during stack unwinding
                    # the requirement object stays alive (satisfied) until released
                    if mon[k] is not None:
                        mon[k] = (mon[k][0], mon[k][1])
                elif sym in ('cp1', 'cpc1', 'mv1'):
                    if alive[1] is None or third is not None: ok = False; break
                    third = c.id()
                    ops.append(({'cp1': 'cpobj', 'cpc1': 'cpobjc', 'mv1': 'mvobj'}[sym], third, alive[1]))
                elif sym == 'die3':
                    if third is None or third == 'dead': ok = False; break
                    ops.append(('rmobj', third)); third = 'dead'
                else:
                    a, b = (1, 2) if sym.endswith('12') else (2, 1)
                    if alive[a] is None or alive[b] is None: ok = False; break
                    ops.append(('asmv' if sym.startswith('asmv') else 'asobj', alive[a], alive[b]))
            if not ok:
                continue
            # a died object's requirement: release at the end
            for e in mons_live:
                ops.append(('rmexp', e))
            for x in (alive[1], alive[2], third):
                if x is not None and x != 'dead':
                    ops.append(('rmobj', x))
            if sq is not None:
                ops.append(('rmseq', sq))
            yield ops


# ---- C17: tracers ---------------------------------------------------------------------------------------------
def enum_tracers(meta, tier, sel):
    quick = tier == 'quick'
    slen = 5 if quick else 6
    alpha = ['push', 'pushs', 'pushr', 'pop', 'val', 'void', 'std', 'int', 'nest', 'rej']
    for st in strings(alpha, slen, exact=True):
        if not any(x in ('push', 'pushs', 'pushr') for x in st):
            continue
        if sel.skip(): continue
        c = Ctx(meta)
        ops = []
        o, o2 = c.id(), c.id()
        ops.append(('obj', o, 'M')); ops.append(('obj', o2, 'M'))
        exps = []

        def mk(core, obj, **p):
            sh, slot = c.slot(core); e = c.id()
            q = dict(mask=15, lo=0, hi=INF, val=0)
            q.update(p)
            ops.append(('exp', e, sh, slot, obj, q)); exps.append(e)
            return e
        mk('f_rt', o, mask=1)                       # f(0) -> value
        mk('v_rt', o, mask=1)                       # v(0) -> void
        mk('f_rt_tstd', o, mask=2)                  # f(1) throws std
        mk('v_rt_tint', o, mask=2)                  # v(1) throws int
        mk('v_rt', o2, mask=15)                     # nested target
        mk('f_rt_s3', o, mask=4, se1=2, nobj=o2, narg=2)   # f(2): nested call from 2nd side effect
        tr = []
        ok = True
        for sym in st:
            if sym in ('push', 'pushs', 'pushr'):
                if len(tr) >= 3: ok = False; break
                t = c.id(); ops.append(('tr', t, {'push': 0, 'pushs': 1, 'pushr': 2}[sym])); tr.append(t)
            elif sym == 'pop':
                if not tr: ok = False; break
                ops.append(('rmtr', tr.pop()))
            elif sym == 'val':
                ops.append(('call', o, 'f', 0))
            elif sym == 'void':
                ops.append(('call', o, 'v', 0))
            elif sym == 'std':
                ops.append(('call', o, 'f', 1))
            elif sym == 'int':
                ops.append(('call', o, 'v', 1))
            elif sym == 'nest':
                ops.append(('call', o, 'f', 2))
            elif sym == 'rej':
                ops.append(('call', o, 'f', 3))
        if not ok:
            continue
        teardown(ops, exps, [o, o2], [], tr)
        yield ops


# ---- C07: forbid stacks ----------------------------------------------------------------------------------------
def enum_forbid(meta, tier, sel):
    quick = tier == 'quick'
    kinds = ['allow', 'forbid', 'req', 't0']
    masks = [0b0001, 0b0011, 0b0110, 0b1111] if not quick else [0b0001, 0b0011, 0b0110]
    order_variants = ['lifo', 'fifo']
    slen = 3
    core_of = {'allow': 'f_allow', 'forbid': 'f_forbid', 'req': 'f_rt', 't0': 'f_t0'}
    for ks in itertools.product(kinds, repeat=3):
        if not any(k in ('forbid', 't0') for k in ks):
            continue
        if ks.count('allow') > 2 or ks.count('t0') > 2:
            continue
        for ms in itertools.product(masks, repeat=3):
            for calls in itertools.product(range(3), repeat=slen):
                for ov in order_variants:
                    if sel.skip(): continue
                    c = Ctx(meta)
                    ops = []
                    o = c.id(); ops.append(('obj', o, 'M'))
                    exps = []
                    try:
                        for k, mk in zip(ks, ms):
                            sh, slot = c.slot(core_of[k]); e = c.id()
                            p = dict(mask=mk, val=0)
                            if k == 'req':
                                p.update(lo=1, hi=2)
                            ops.append(('exp', e, sh, slot, o, p)); exps.append(e)
                    except IndexError:
                        continue
                    for a in calls:
                        ops.append(('callx' if ov == 'fifo' else 'call', o, 'f', a))   # fifo variant: calls issued from inside an exception handler
                    rel = list(reversed(exps)) if ov == 'lifo' else list(exps)
                    for e in rel:
                        ops.append(('rmexp', e))
                        # after each release: the same calls again behave as if it had never existed
                        ops.append(('call', o, 'f', calls[0]))
                    ops.append(('rmobj', o))
                    yield ops


# ---- C01: create / release / move / destroy / call strings --------------------------------------------------------
def enum_accept(meta, tier, sel):
    quick = tier == 'quick'
    slen = 4 if quick else 5
    menu = [(1, 1), (0, INF), (0, 0), (1, 2)]
    alpha = ['new1', 'new3', 'newF', 'rel', 'mv', 'rmobj', 'c0', 'c1', 'c2']
    for b in menu:
        for st in strings(alpha, slen, exact=True):
            if not any(x.startswith('c') for x in st):
                continue
            if sel.skip(): continue
            c = Ctx(meta)
            ops = []
            o = c.id(); ops.append(('obj', o, 'M'))
            sh, slot = c.slot('f_rt'); e0 = c.id()
            ops.append(('exp', e0, sh, slot, o, dict(mask=0b011, lo=b[0], hi=b[1], val=0)))
            live = [e0]
            cur = o
            objs = [o]
            ok = True
            try:
                for sym in st:
                    if sym in ('new1', 'new3', 'newF'):
                        if cur is None or len(live) >= 3: ok = False; break
                        core = 'f_forbid' if sym == 'newF' else 'f_rt_w1s1'
                        sh, slot = c.slot(core); e = c.id()
                        p = dict(mask=0b001 if sym == 'new1' else 0b110, val=0)
                        if sym != 'newF':
                            p.update(lo=1, hi=1, w0=0b101)
                        ops.append(('exp', e, sh, slot, cur, p)); live.append(e)
                    elif sym == 'rel':
                        if not live: ok = False; break
                        ops.append(('rmexp', live.pop(0)))
                    elif sym == 'mv':
                        if cur is None or len(objs) > 2: ok = False; break
                        n = c.id(); ops.append(('mvobj', n, cur)); objs.append(n); cur = n
                    elif sym == 'rmobj':
                        if cur is None: ok = False; break
                        ops.append(('rmobj', cur)); objs.remove(cur); cur = None
                    else:
                        if cur is None: ok = False; break
                        ops.append(('call', cur, 'f', int(sym[1])))
            except IndexError:
                continue
            if not ok:
                continue
            for e in live:
                ops.append(('rmexp', e))
            for x in objs:
                ops.append(('rmobj', x))
            yield ops


# ---- C08: clause combinations over the whole shape table ------------------------------------------------------------
def enum_actions(meta, tier, sel):
    for sh in meta['shapes']:
        if sh['cls'] != 'M' or sh['lim'] in ('forbid', 't0'):
            continue
        ns, nw = sh['ns'], sh['nw']
        for semodes in itertools.product((0, 1, 2), repeat=ns):
            if semodes.count(2) > 1 or (2 in semodes and sh['fn'] in ('v', 'r')):
                continue   # nested calls always target v; an expectation on v never nests (no call cycles)
            for wacc in itertools.product((True, False), repeat=nw):
                if sel.skip(): continue
                c = Ctx(meta)
                ops = []
                o, o2 = c.id(), c.id()
                ops.append(('obj', o, 'M')); ops.append(('obj', o2, 'M'))
                s = [c.id(), c.id()]; ops.append(('seq', s[0])); ops.append(('seq', s[1]))
                shn, slotn = c.core['v_rt']['id'], 1
                en = c.id()
                ops.append(('exp', en, shn, slotn, o2, dict(mask=15, lo=0, hi=INF, val=0)))
                e = c.id()
                p = dict(mask=15, mask2=15, val=1, val2=1, lo=0, hi=3, slot=5)
                for i, acc in enumerate(wacc):
                    p['w%d' % i] = 15 if acc else 0b1101   # rejects argument 1 only
                for i, mode in enumerate(semodes):
                    p['se%d' % i] = mode
                    if mode == 2:
                        p['nobj'] = o2; p['narg'] = 3
                for j in range(sh['nq']):
                    p['s%d' % j] = s[j]
                ops.append(('exp', e, sh['id'], 0, o, p))
                arg = {'lit': 1, 'eq': 1, 'slit': 1, 'seq': 1, 'ne': 2, 'lt': 0, 'le': 1, 'gt': 2, 'ge': 1}.get(sh['mk'], 1)
                call = ('call', o, sh['fn'], arg, 1) if sh['fn'] == 'h' else ('call', o, sh['fn'], arg)
                ops.append(call); ops.append(call)
                teardown(ops, [e, en], [o, o2], s)
                yield ops


# ---- C14: destruction permutations of a small population ---------------------------------------------------------------
def enum_destruction(meta, tier, sel):
    quick = tier == 'quick'
    # population: mock A (movable) with a saturated, an active sequenced and an active plain expectation;
    # sequence S; watched object W with a sequenced requirement; tracer T
    ents = ['objA', 'expSat', 'expSeq', 'expPlain', 'seqS', 'objW', 'monW', 'tracer']
    perms = itertools.permutations(ents)
    for pi, perm in enumerate(perms):
        if quick and pi % 6:
            continue
        for mvpos in ((None, 0, 3) if quick else (None, 0, 2, 4, 6)):
            if sel.skip(): continue
            c = Ctx(meta)
            ops = []
            A = c.id(); ops.append(('obj', A, 'M'))
            S = c.id(); ops.append(('seq', S))
            W = c.id(); ops.append(('obj', W, 'W'))
            sh, slot = c.slot('f_rt'); eSat = c.id()
            ops.append(('exp', eSat, sh, slot, A, dict(mask=1, lo=1, hi=1, val=0)))
            ops.append(('call', A, 'f', 0))
            sh, slot = c.slot('f_rt_q1_limfirst'); eSeq = c.id()
            ops.append(('exp', eSeq, sh, slot, A, dict(mask=2, lo=1, hi=2, val=0, s0=S)))
            sh, slot = c.slot('f_rt_w1s1'); ePlain = c.id()
            ops.append(('exp', ePlain, sh, slot, A, dict(mask=4, lo=0, hi=INF, val=0, w0=15)))
            site = [st for st in meta['mon_sites'] if st['cls'] == 'W' and st['nseq'] == 1][0]
            mW = c.id(); ops.append(('mon', mW, site['site'], W, S))
            T = c.id(); ops.append(('tr', T, 0))
            cur = A
            alive = set(ents)
            objs_extra = []
            for step, ent in enumerate(perm):
                if mvpos is not None and step == mvpos and 'objA' in alive:
                    n = c.id(); ops.append(('mvobj', n, cur)); objs_extra.append(cur); cur = n
                if ent == 'objA':
                    ops.append(('rmobj', cur))
                elif ent == 'expSat':
                    ops.append(('rmexp', eSat))
                elif ent == 'expSeq':
                    ops.append(('rmexp', eSeq))
                elif ent == 'expPlain':
                    ops.append(('rmexp', ePlain))
                elif ent == 'seqS':
                    ops.append(('rmseq', S))
                elif ent == 'objW':
                    ops.append(('rmobj', W))
                elif ent == 'monW':
                    ops.append(('rmexp', mW))
                elif ent == 'tracer':
                    ops.append(('rmtr', T))
                alive.discard(ent)
                # survivors keep being used
                if 'objA' in alive:
                    ops.append(('call', cur, 'f', 2))
                    ops.append(('call', cur, 'f', 1))
                if 'objW' in alive:
                    ops.append(('call', W, 'v', 0))
            for x in objs_extra:
                ops.append(('rmobj', x))
            yield ops



# ---- C02: ranking of candidates by pending earlier steps across one or two sequences -------------------------
def enum_seq_rank(meta, tier, sel):
    """fillers (optional entries) in s1 and s2, candidate X (in s1, s2 or both), more fillers, candidate Y
    (unsequenced, s1, s2 or both); X and Y both accept argument 0. The designated handler is the one that
    passes over the fewest pending steps (max over its sequences), newest on ties."""
    pools = ['f_rt_q1_seqfirst', 'f_allow_q1', 'f_rt_q1_limfirst']
    mem_x = [(0,), (1,), (0, 1)]
    mem_y = [(), (0,), (1,), (0, 1)]
    bnds = [(0, INF), (1, 2)] if tier == 'quick' else [(0, INF), (1, 2), (0, 1), (2, 2)]
    for n1 in range(3):
        for n2 in range(3):
            for mx in mem_x:
                for m1 in range(2):
                    for my in mem_y:
                        for bx in bnds:
                            for by in bnds:
                                for calls in ((0, 0, 0), (3, 0, 0), (0, 3, 0)):
                                    if sel.skip(): continue
                                    c = Ctx(meta)
                                    ops = []
                                    o = c.id(); ops.append(('obj', o, 'M'))
                                    s = [c.id(), c.id()]
                                    ops.append(('seq', s[0])); ops.append(('seq', s[1]))
                                    exps = []
                                    pool_i = [0]

                                    def filler(si):
                                        for _ in range(len(pools)):
                                            core = pools[pool_i[0] % len(pools)]
                                            pool_i[0] += 1
                                            try:
                                                sh, slot = c.slot(core)
                                            except IndexError:
                                                continue
                                            e = c.id()
                                            p = dict(mask=8, val=0, s0=s[si])
                                            if c.core[core]['rt']:
                                                p.update(lo=0, hi=INF)
                                            elif core == 'f_none_q1':
                                                return None   # a required (1,1) step would block: not a filler
                                            ops.append(('exp', e, sh, slot, o, p)); exps.append(e)
                                            return e
                                        return None

                                    def cand(mem, bnd):
                                        core = {0: 'f_rt', 1: 'f_rt_q1_limfirst', 2: 'f_rt_q2'}[len(mem)]
                                        try:
                                            sh, slot = c.slot(core)
                                        except IndexError:
                                            try:
                                                sh, slot = c.slot('f_rt_q1_seqfirst') if len(mem) == 1 else (None, None)
                                            except IndexError:
                                                sh = None
                                            if sh is None:
                                                return None
                                        e = c.id()
                                        p = dict(mask=1, val=0, lo=bnd[0], hi=bnd[1])
                                        for j, sj in enumerate(mem):
                                            p['s%d' % j] = s[sj]
                                        ops.append(('exp', e, sh, slot, o, p)); exps.append(e)
                                        return e
                                    ok = True
                                    for _ in range(n1):
                                        ok = ok and filler(0) is not None
                                    for _ in range(n2):
                                        ok = ok and filler(1) is not None
                                    ok = ok and cand(mx, bx) is not None
                                    for _ in range(m1):
                                        ok = ok and filler(0) is not None
                                    ok = ok and cand(my, by) is not None
                                    if not ok:
                                        continue
                                    for a in calls:
                                        ops.append(('call', o, 'f', a))
                                    teardown(ops, exps, [o], s)
                                    yield ops


ENUMS = {
    'seq_rank': enum_seq_rank,
    'seq_own': lambda m, t, sel: enum_sequences(m, t, 'own', sel),
    'seq_overlap': lambda m, t, sel: enum_sequences(m, t, 'overlap', sel),
    'seq_mon': lambda m, t, sel: enum_sequences(m, t, 'mon', sel),
    'seq_monu': lambda m, t, sel: enum_sequences(m, t, 'monu', sel),
    'seq_teardown': enum_seq_teardown,
    'bounds': enum_bounds,
    'lifetime': enum_lifetime,
    'deathwatch': enum_deathwatch,
    'tracers': enum_tracers,
    'forbid': enum_forbid,
    'accept': enum_accept,
    'actions': enum_actions,
    'destruction': enum_destruction,
}

# property -> enumerators run in addition to the random histories
PLAN = {
    'C01': ['accept', 'forbid'],
    'C02': ['seq_overlap', 'seq_rank', 'seq_monu', 'forbid'],
    'C03': ['bounds'],
    'C04': ['lifetime', 'bounds'],
    'C05': ['seq_own', 'seq_mon', 'seq_overlap', 'seq_rank'],
    'C06': ['seq_teardown', 'seq_own'],
    'C07': ['forbid'],
    'C08': ['actions'],
    'C13': ['deathwatch', 'seq_mon'],
    'C14': ['destruction', 'lifetime'],
    'C15': ['lifetime', 'forbid', 'seq_teardown', 'bounds'],
    'C16': ['forbid', 'seq_overlap'],
    'C17': ['tracers'],
}
NCHUNKS = {'quick': 64, 'thorough': 256}


def plan_for(prop, tier):
    return [(('exh', name, tier), 0, NCHUNKS[tier]) for name in PLAN.get(prop, [])]


class Sel:
    def __init__(self, chunk, n):
        self.chunk, self.n, self.i = chunk, n, -1

    def skip(self):
        self.i += 1
        return self.i % self.n != self.chunk


def enumerate_chunk(meta, spec, chunk, count):
    _, name, tier = spec
    n = NCHUNKS[tier]
    for ops in ENUMS[name](meta, tier, Sel(chunk, n)):
        preds = engine.legal(meta, ops)
        if preds is None:
            raise RuntimeError('enumerator %s produced an illegal history: %r' % (name, ops))
        cut = None
        for j, pr in enumerate(preds):
            if pr.cut:
                cut = j
                break
        yield ops, preds, cut
