"""Oracle: compares the observables recorded by the scenario driver with the reference
model's predictions, operation by operation. Every disagreement is a Mismatch carrying an
*aspect* and context tags; owners() maps it to the properties whose statement it refutes."""
import os, re

STRDOM = ['a', 'b', '', 'zz']

_unesc_re = re.compile(r'\\(\\|n|s|e|x[0-9a-f]{2})')


def unesc(s):
    def f(m):
        g = m.group(1)
        if g == '\\':
            return '\\'
        if g == 'n':
            return '\n'
        if g == 's':
            return ' '
        if g == 'e':
            return ''
        return chr(int(g[1:], 16))
    return _unesc_re.sub(f, s)


class Obs:
    __slots__ = ('reports', 'ok', 'trace', 'clauses', 'outcome', 'q', 'qs', 'create', 'probe', 'assign', 'bad', 'exc_arg', 'destr')

    def __init__(self):
        self.reports = []   # (tag, sev, file, line, msg)
        self.ok = []        # (tag, text)
        self.trace = []     # (tid, file, line, text)
        self.clauses = []
        self.outcome = None
        self.q = {}
        self.qs = {}
        self.create = None
        self.probe = None
        self.assign = None
        self.bad = []
        self.exc_arg = None
        self.destr = set()   # indices of reports sent while an object was being destroyed from inside a side effect


_loc_line_re = re.compile(r'^(\S*shapes_\w+\.cpp):(\d+)$')


def parse_scenarios(text):
    """Parse driver output into {scenario id: {'ops': [Obs...], 'leak': int|None, 'ended': bool, 'leftover': int}}"""
    out = {}
    cur = None
    ob = None
    inprobe = False
    order = []
    for ln in text.split('\n'):
        if not ln:
            continue
        t = ln.split(' ')
        k = t[0]
        if k == 'S':
            cur = {'ops': [], 'leak': None, 'ended': False, 'leftover': 0}
            out[int(t[1])] = cur
            order.append(int(t[1]))
            ob = None
            continue
        if cur is None:
            continue
        if k == 'B':
            ob = Obs()
            cur['ops'].append(ob)
            inprobe = False
            indestr = 0
            continue
        if k == 'E':
            cur['ended'] = True
            ob = None
            continue
        if k == 'L':
            cur['leak'] = int(t[1])
            continue
        if k == 'X':
            cur['leftover'] = int(t[2])
            continue
        if ob is None:
            # events outside an op (teardown of leftovers): collected on a pseudo record
            if 'tail' not in cur:
                cur['tail'] = Obs()
            tgt = cur['tail']
        else:
            tgt = ob
        if k == 'F':
            ob = None
        elif k == 'R':
            rec = (t[1], t[2], unesc(t[3]), int(t[4]), unesc(t[5]) if len(t) > 5 else '')
            if inprobe:
                tgt.probe.append(('R', t[1]))
            else:
                if indestr:
                    tgt.destr.add(len(tgt.reports))
                tgt.reports.append(rec)
        elif k == 'K':
            if inprobe:
                tgt.probe.append(('K', t[1]))
            else:
                tgt.ok.append((t[1], unesc(t[2])))
        elif k == 'P{':
            inprobe = True
            tgt.probe = []
        elif k == 'P}':
            inprobe = False
        elif k == 'P':
            tgt.probe.append(('default',))
        elif k == 'T':
            tgt.trace.append((int(t[1]), unesc(t[2]), int(t[3]), unesc(t[4])))
        elif k == 'TS':
            tid = int(t[1])
            txt = unesc(t[2])
            lines = txt.split('\n')
            rec = None
            for l in lines:
                m = _loc_line_re.match(l)
                if m:
                    if rec:
                        tgt.trace.append((tid, rec[0], rec[1], '\n'.join(rec[2])))
                    rec = [m.group(1), int(m.group(2)), []]
                elif rec is not None:
                    rec[2].append(l)
                elif l:
                    tgt.bad.append('stream tracer text without location: %r' % l)
            if rec:
                tgt.trace.append((tid, rec[0], rec[1], '\n'.join(rec[2])))
        elif k == 'C':
            tgt.clauses.append((int(t[1]), t[2], int(t[3]), int(t[4])))
        elif k == 'D{':
            indestr += 1
        elif k == 'D}':
            indestr -= 1
        elif k == 'N{':
            tgt.clauses.append(('N{',))
        elif k == 'N}':
            tgt.clauses.append(('N}',))
        elif k == 'V':
            if t[1] == 'ret':
                tgt.outcome = ('ret', int(t[2]))
            elif t[1] == 'void':
                tgt.outcome = ('void',)
            elif t[1] == 'ref':
                tgt.outcome = ('ref', int(t[2]), int(t[3])) + ((int(t[4]),) if len(t) > 4 else ())
            elif t[1] == 'fatal':
                tgt.outcome = ('fatal',)
            elif t[1] == 'exc':
                if t[2] == 'S':
                    tgt.outcome = ('exc', 'S', int(t[3]), int(t[4]))
                elif t[2] in ('I', 'P'):
                    tgt.outcome = ('exc', t[2], int(t[3]))
                    if t[2] == 'P' and unesc(t[4]) != 'P%d' % int(t[3]):
                        tgt.bad.append('what() payload %r' % unesc(t[4]))
                    # the argument the THROW expression was evaluated with travels in the exception object
                    tgt.exc_arg = int(t[5]) if t[2] == 'P' and len(t) > 5 else (int(t[4]) if t[2] == 'I' and len(t) > 4 else None)
                else:
                    tgt.outcome = ('exc', t[2]) + tuple(t[3:])
            else:
                tgt.outcome = tuple(t[1:])
        elif k == 'Q':
            tgt.q[int(t[1])] = (t[2] == '1', t[3] == '1')
        elif k == 'QS':
            tgt.qs[int(t[1])] = t[2] == '1'
        elif k == 'M':
            tgt.create = t[1]
        elif k == 'A':
            tgt.assign = int(t[1])
        elif k == '!':
            tgt.bad.append(ln)
        else:
            tgt.bad.append('unparsed: ' + ln)
    return out, order


class Mismatch:
    __slots__ = ('aspect', 'ctx', 'detail', 'sub')

    def __init__(self, aspect, ctx, detail, sub=None):
        self.aspect, self.ctx, self.detail, self.sub = aspect, frozenset(ctx), detail, sub

    def __repr__(self):
        return '%s[%s]: %s' % (self.aspect, ','.join(sorted(self.ctx)), self.detail)


# aspects whose disagreement means model and implementation may have diverged in *state*
STATE_ASPECTS = {'call.accept', 'call.handler', 'flags', 'seq.completed', 'eol.reports', 'create', 'call.reject.effects'}


def owners(m):
    a, ctx = m.aspect, m.ctx
    o = set()
    if a == 'call.accept':
        o |= {'C01'}
        if 'seq' in ctx: o.add('C05')
        if 'forbid' in ctx: o.add('C07')
        if 'sat' in ctx: o.add('C03')
    elif a == 'call.handler':
        o |= {'C02'}
        if 'seq' in ctx: o.add('C05')
        if 'sat' in ctx: o.add('C03')
        if 'forbid' in ctx: o.add('C07')
    elif a == 'call.reject.count':
        o |= {'C01', 'C15'}
        if 'seq' in ctx: o.add('C05')
        if 'forbid' in ctx: o.add('C07')
    elif a == 'call.reject.effects':
        o |= {'C01'}
        if 'forbid' in ctx: o.add('C07')
        if 'seq' in ctx: o.add('C05')
    elif a == 'flags':
        o |= {'C03'}
        if 'rejected' in ctx: o.add('C01')
        if 'nonhandler' in ctx: o.add('C02')
        if 'forbid' in ctx: o.add('C07')
        if 'mon' in ctx: o.add('C13')
        if 'seq' in ctx: o.add('C05')
        if 'threw' in ctx: o.add('C08')
    elif a == 'seq.completed':
        o |= {'C06'}
    elif a == 'eol.reports':
        if 'unfulfilled' in ctx or 'pending' in ctx: o.add('C04')
        if 'alive' in ctx or 'unexpected' in ctx: o.add('C13')
        if 'seqnotmet' in ctx: o.add('C06')
        if 'destr_seq' in ctx: o.add('C05')
        if 'forbid' in ctx: o.add('C07')
        if not o:
            o |= {'C04', 'C15'}
    elif a == 'eol.seqlisting':
        o |= {'C06'}
    elif a == 'eol.content':
        o |= {'C04', 'C15'}
    elif a == 'create':
        o |= {'C03'}
    elif a == 'report.severity':
        o |= {'C15'}
    elif a == 'report.kind':
        o |= {'C15'}
        if 'forbid' in ctx: o.add('C07')
        if 'seq' in ctx: o.add('C05')
        if 'sat' in ctx: o.add('C03')
    elif a == 'report.content':
        o |= {'C15'}
        if 'forbid' in ctx: o.add('C07')
        if 'sat' in ctx: o.add('C03')
    elif a in ('clauses.order', 'clauses.with'):
        o |= {'C08'}
    elif a == 'clauses.foreign':
        o |= {'C02', 'C08'}
    elif a == 'retval':
        o |= {'C08'}
    elif a == 'ok':
        o |= {'C16'}
    elif a == 'setrep':
        o |= {'C16'}
    elif a == 'trace':
        o |= {'C17'}
    elif a == 'watch.assign':
        o |= {'C13'}
    elif a in ('crash', 'leak', 'hang', 'harness'):
        o |= {'*'}
    if 'moved' in ctx and a in ('call.accept', 'call.handler', 'flags', 'eol.reports', 'call.reject.count'):
        o.add('C14')
    if 'mon' in ctx and a == 'flags':
        o.add('C13')
    return o


KINDS = [
    ('nomatch', ('no match',)),
    ('forbidden', ('forbidden',)),
    ('seqnotmet', ('not met',)),
    ('seq', ('sequence mismatch', 'sequence')),
    ('unfulfilled', ('unfulfilled',)),
    ('pending', ('pending',)),
    ('alive', ('still alive',)),
    ('unexpected', ('unexpected destruction',)),
]


def classify(msg):
    head = msg.split('\n', 1)[0].lower()
    for k, kws in KINDS:
        for kw in kws:
            if kw in head:
                return k
    low = msg.lower()
    for k, kws in KINDS:
        for kw in kws:
            if kw in low:
                return k
    return 'unknown'


def base(f):
    return os.path.basename(f) if f else ''


_locre = re.compile(r'(\S*?shapes_\w+\.cpp):(\d+)')
_count_req = re.compile(r'to be called (once|(\d+) times)')
_count_act = re.compile(r'actually (never called|called once|called (\d+) times)')

MK_FRAG = {
    'wild': lambda p, i: ' matching _', 'ANY': lambda p, i: 'ANY(int)', 'ANYi': lambda p, i: 'ANY(int)',
    'ANYs': lambda p, i: 'ANY(std::string const&)', 'ANYr': lambda p, i: 'ANY(int&)',
    'lit': lambda p, i: ' == %d' % p.get('val', 0), 'eq': lambda p, i: ' == %d' % p.get('val', 0),
    'ne': lambda p, i: ' != %d' % p.get('val', 0), 'lt': lambda p, i: ' < %d' % p.get('val', 0),
    'le': lambda p, i: ' <= %d' % p.get('val', 0), 'gt': lambda p, i: ' > %d' % p.get('val', 0),
    'ge': lambda p, i: ' >= %d' % p.get('val', 0),
    'set': lambda p, i: ' in set#%d:%d' % (i, p.get('mask', 0)), 'tset': lambda p, i: ' in tset#%d:%d' % (i, p.get('mask', 0)),
    'sset': lambda p, i: ' in sset#%d:%d' % (i, p.get('mask', 0)),
    'slit': lambda p, i: ' == %s' % STRDOM[p.get('val', 0) & 3], 'seq': lambda p, i: ' == %s' % STRDOM[p.get('val', 0) & 3],
    'lit2': lambda p, i: ' == %d' % p.get('val2', 0), 'set2': lambda p, i: ' in set#%d:%d' % (i, p.get('mask2', 0)),
}


def arg_text(fn, a):
    return STRDOM[a & 3] if fn == 'gs' else str(a)


def fn_name(fn):
    return {'gi': 'g', 'gs': 'g'}.get(fn, fn)


class Registry:
    """eid -> static info, kept for the whole scenario (expectations outlive their model entry)."""
    def __init__(self):
        self.info = {}

    def note(self, model):
        for e in model.exps.values():
            if e.id not in self.info:
                self.info[e.id] = dict(file=e.file, line=e.line, text=e.text, shape=e.shape, p=dict(e.p), mon=e.is_mon,
                                       site=e.site, fn=e.fn)


def check_args_printed(msg, fn, args):
    """every actual argument is printed, in positional order, on a line naming _N"""
    pos = 0
    for i, a in enumerate(args):
        m = re.compile(r'_%d\b([^\n]*)' % (i + 1)).search(msg, pos)
        if not m:
            return 'argument _%d not printed' % (i + 1)
        if arg_text(fn, a) not in m.group(1) and arg_text(fn, a) != '':
            return 'argument _%d printed as %r, expected value %r' % (i + 1, m.group(1), arg_text(fn, a))
        pos = m.end()
    return None


def compare(pred, obs, reg, is_call_op):
    """Return list of Mismatch for one operation."""
    mm = []
    ctx = set(pred.ctx)

    def add(aspect, detail, extra=(), sub=None):
        mm.append(Mismatch(aspect, ctx | set(extra), detail, sub))

    for b in obs.bad:
        add('harness', b)

    # ---- reporter routing and severity ---------------------------------------------------
    for ri, (tag, sev, f, line, msg) in enumerate(obs.reports):
        if tag != pred.rep:
            add('setrep', 'report delivered to reporter %s, installed is %s' % (tag, pred.rep))
        want = 'F' if is_call_op and ri not in obs.destr else 'N'   # a destructor running inside a call still reports non-fatally
        if sev != want:
            add('report.severity', '%s report during %s: %r' % (sev, pred.kind, msg[:80]))

    # ---- reports: match predicted against observed ---------------------------------------
    oreps = [dict(kind=classify(msg), file=base(f), line=line, msg=msg, sev=sev, used=False, destr=(ri in obs.destr)) for ri, (tag, sev, f, line, msg) in enumerate(obs.reports)]
    for o in oreps:
        if not is_call_op or o['destr']:
            if o['kind'] == 'seq':
                o['kind'] = 'destr_seq'   # a sequence mismatch detected while something is destroyed

    def locs_of(pr):
        if pr.get('any_of') is not None:
            return {(reg.info[x]['file'], reg.info[x]['line']) for x in pr['any_of']}
        if pr.get('exp') is not None:
            i = reg.info[pr['exp']]
            return {(i['file'], i['line'])}
        return {('', 0)}

    missing, matched = [], []
    for pr in pred.reports:
        want = locs_of(pr)
        hit = None
        for orp in oreps:
            if not orp['used'] and orp['kind'] == pr['kind'] and (orp['file'], orp['line']) in want:
                hit = orp
                break
        if hit is None:
            # same location, different kind => kind/culprit problem rather than a missing report
            for orp in oreps:
                if not orp['used'] and (orp['file'], orp['line']) in want and orp['sev'] == pr['sev']:
                    hit = orp
                    add('report.kind', 'expected %s report, got %s: %r' % (pr['kind'], orp['kind'], orp['msg'][:100]), (pr['kind'],))
                    break
        if hit is None:
            if not pr.get('optional'):
                missing.append(pr)
        else:
            hit['used'] = True
            matched.append((pr, hit))
    extra = [o for o in oreps if not o['used']]

    if is_call_op:
        # reports sent by a destruction that a side effect of this call carried out are the destruction's, not the call's verdict
        creps = [o for o in oreps if not o['destr']]
        nfatal = sum(1 for o in creps if o['sev'] == 'F')
        rejected_obs = obs.outcome == ('fatal',) or len(creps) > 0
        if pred.accepted is True:
            if rejected_obs:
                add('call.accept', 'model accepts (handler %s), implementation rejected: outcome %s, reports %s' %
                    (pred.handler, obs.outcome, [(o['kind'], o['file'], o['line']) for o in creps]))
        elif pred.accepted is False:
            if not rejected_obs:
                add('call.accept', 'model rejects (%s), implementation accepted: outcome %s' %
                    ([p['kind'] for p in pred.reports], obs.outcome))
            else:
                if len(creps) != 1 or nfatal != 1:
                    add('call.reject.count', 'rejected call produced %d reports (%d fatal)' % (len(creps), nfatal))
                elif missing or extra:
                    # one report, but about the wrong thing
                    o = creps[0]
                    pr = pred.reports[0]
                    add('report.kind', 'expected %s at %s, got %s at %s:%d' % (pr['kind'], sorted(locs_of(pr)), o['kind'], o['file'], o['line']), (pr['kind'],))
                eff = [c for c in obs.clauses if c[0] not in ('N{', 'N}') and c[1] in ('S', 'V', 'X')]
                if eff:
                    add('call.reject.effects', 'rejected call evaluated clauses %s' % eff)
                if obs.outcome != ('fatal',):
                    add('call.reject.count', 'rejected call did not surface the fatal report to the caller: %s' % (obs.outcome,))
        dmiss = [p for p in missing if p['sev'] == 'N']
        dextra = [o for o in extra if o['destr']]
        if pred.accepted is True and (dmiss or dextra):
            kinds = set(p['kind'] for p in dmiss) | set(o['kind'] for o in dextra)
            add('eol.reports', 'destruction inside the call: missing %s, unexpected %s' % (
                [(p['kind'], sorted(locs_of(p))) for p in dmiss],
                [(o['kind'], o['file'], o['line'], o['msg'][:80]) for o in dextra]), kinds)
    else:
        if missing or extra:
            kinds = set(p['kind'] for p in missing) | set(o['kind'] for o in extra)
            add('eol.reports', 'missing %s, unexpected %s' % (
                [(p['kind'], sorted(locs_of(p))) for p in missing],
                [(o['kind'], o['file'], o['line'], o['msg'][:80]) for o in extra]), kinds)

    # ---- report contents -----------------------------------------------------------------
    for pr, o in matched:
        msg = o['msg']
        k = pr['kind']
        if k in ('nomatch', 'forbidden'):
            if not re.search(r'\b%s\b' % re.escape(fn_name(pr['fn'])), msg):
                add('report.content', '%s report does not name function %s' % (k, fn_name(pr['fn'])), (k,))
            head = msg.split('\nTried', 1)[0].split('\nMatches saturated', 1)[0]
            err = check_args_printed(head, pr['fn'], pr['args'])
            if err:
                add('report.content', '%s report: %s in %r' % (k, err, head[:120]), (k,))
        if k == 'forbidden' or k in ('unfulfilled', 'pending'):
            i = reg.info[pr['exp']]
            if i['text'] not in msg:
                add('report.content' if k == 'forbidden' else 'eol.content', '%s report lacks expectation text %r: %r' % (k, i['text'], msg[:120]), (k,))
        if k in ('unfulfilled', 'pending'):
            i = reg.info[pr['exp']]
            s = i['shape']
            frag = MK_FRAG[s['mk']](i['p'], pr['exp'])
            if frag not in msg:
                add('eol.content', '%s report lacks expected parameter %r: %r' % (k, frag, msg), (k,))
            if s['fn'] == 'h':
                frag = MK_FRAG[s['mk2']](i['p'], pr['exp'])
                if frag not in msg:
                    add('eol.content', '%s report lacks expected parameter %r' % (k, frag), (k,))
            m1, m2 = _count_req.search(msg), _count_act.search(msg)
            if not m1 or not m2:
                add('eol.content', '%s report lacks required/actual counts: %r' % (k, msg[:160]), (k,))
            else:
                req = 1 if m1.group(1) == 'once' else int(m1.group(2))
                act = 0 if m2.group(1) == 'never called' else (1 if m2.group(1) == 'called once' else int(m2.group(2)))
                if req != pr['L'] or act != pr['count']:
                    add('eol.content', '%s report says required %d actual %d, model %d/%d' % (k, req, act, pr['L'], pr['count']), (k,))
        if k == 'alive':
            i = reg.info[pr['exp']]
            if i['site']['obj_text'] not in msg:
                add('report.content', 'still-alive report lacks object text %r' % i['site']['obj_text'], (k,))
        if k == 'seqnotmet':
            got = [(base(a), int(b)) for a, b in _locre.findall(msg)]
            want = [(reg.info[x]['file'], reg.info[x]['line']) for x in pr['listing']]
            if got != want:
                add('eol.seqlisting', 'sequence teardown lists %s, model pending entries %s' % (got, want), (k,))
        if k == 'nomatch':
            if pr['saturated']:
                part = msg.split('Matches saturated', 1)
                got = sorted((base(a), int(b)) for a, b in _locre.findall(part[1])) if len(part) > 1 else None
                want = sorted((reg.info[x]['file'], reg.info[x]['line']) for x in pr['saturated'])
                if got != want:
                    add('report.content', 'saturated listing %s, model %s' % (got, want), ('sat',))
            else:
                segs = msg.split('\nTried ')
                got = []
                for sg in segs[1:]:
                    m = _locre.search(sg)
                    got.append(((base(m.group(1)), int(m.group(2))) if m else None, sg[m.end():] if m else sg))
                want = pr['listing']
                wl = [(reg.info[x[0]]['file'], reg.info[x[0]]['line']) for x in want]
                if [g[0] for g in got] != wl:
                    add('report.content', 'no-match listing %s, model (newest first) %s' % ([g[0] for g in got], wl))
                else:
                    for (eid, why, what), (_, rest) in zip(want, got):
                        if why == 'params':
                            ns = sorted(set(int(x) for x in re.findall(r'Expected\s+_(\d+)', rest)))
                            if ns != sorted(what):
                                add('report.content', 'no-match listing of expectation %d names parameters %s, model %s' % (eid, ns, what))
                            if 'Failed WITH' in rest:
                                add('report.content', 'no-match listing of expectation %d names a WITH although parameters rejected' % eid)
                        else:
                            ws = [int(x) for x in re.findall(r'H::with\(p,(\d)', rest)]
                            if ws != [what]:
                                add('report.content', 'no-match listing of expectation %d names WITH %s, model first failing %s' % (eid, ws, what))
                            if re.search(r'Expected\s+_\d', rest):
                                add('report.content', 'no-match listing of expectation %d names parameters although all fit' % eid)
        if k in ('forbidden', 'unfulfilled', 'pending', 'alive', 'destr_seq', 'seq'):
            pass  # location already matched through locs_of

    # ---- outcome / handler / clauses -------------------------------------------------------
    if is_call_op and pred.accepted is True and obs.outcome != ('fatal',) and all(ri in obs.destr for ri in range(len(obs.reports))):
        po, oo = pred.outcome, obs.outcome
        if po != oo:
            pid = po[2] if po[0] == 'exc' else (po[1] if len(po) > 1 else None)
            oid = None
            if oo:
                oid = oo[2] if oo[0] == 'exc' and len(oo) > 2 else (oo[1] if len(oo) > 1 else None)
            if po and oo and po[0] == oo[0] and pid != oid:
                add('call.handler', 'model handler %s -> %s, implementation %s' % (pred.handler, po, oo))
            else:
                # different kind of result: find out who ran
                ran = {c[0] for c in obs.clauses if c[0] not in ('N{', 'N}') and c[1] in ('S', 'V', 'X')}
                if ran and pred.handler not in ran and not any(c[0] == 'N{' for c in obs.clauses):
                    add('call.handler', 'model handler %s -> %s, implementation ran %s -> %s' % (pred.handler, po, sorted(ran), oo))
                else:
                    add('retval', 'model result %s, implementation %s' % (po, oo))
        if oo and oo[0] == 'exc' and oo[1] in ('P', 'I') and obs.exc_arg is not None:
            # the exception the caller receives is the value of this call's THROW expression, not an earlier one's
            xs = [c for c in obs.clauses if c[0] == oo[2] and c[1] == 'X']
            if xs and xs[-1][3] != obs.exc_arg:
                add('retval', 'caller received the exception object made for argument %d, this call\'s THROW expression was evaluated with %d' % (obs.exc_arg, xs[-1][3]))
        eff_o = [c for c in obs.clauses if c[0] in ('N{', 'N}') or c[1] in ('S', 'V', 'X')]
        eff_p = [(c if c[0] != 'N{' else ('N{',)) for c in pred.clauses]
        if eff_o != eff_p:
            foreign = [c for c in eff_o if c[0] not in ('N{', 'N}') and c[0] != pred.handler]
            if foreign and not any(c[0] == 'N{' for c in eff_p):
                add('clauses.foreign', 'clauses of non-handler ran: %s (handler %s)' % (foreign, pred.handler))
            else:
                add('clauses.order', 'side effects / return evaluated %s, model %s' % (eff_o, eff_p))
    # WITH evaluation: passes in declaration order, stopping at the first failure; only own function's expectations
    if is_call_op:
        per = {}
        for c in obs.clauses:
            if c[0] in ('N{', 'N}'):
                continue
            if c[1] == 'W':
                per.setdefault(c[0], []).append((c[2], c[3]))
        for eid, evs in per.items():
            if eid not in pred.with_ok:
                add('clauses.foreign', 'WITH of expectation %d on another object/function evaluated' % eid)
                continue
            i = reg.info.get(eid)
            if i is None:
                continue
            masks = pred.wmasks.get(eid)
            if masks is None:
                masks = [i['p'].get('w%d' % j, 0) for j in range(i['shape']['nw'])]
            expect_idx = 0
            complete = 0
            for (idx, arg) in evs:
                if idx != expect_idx:
                    add('clauses.with', 'expectation %d: WITH #%d evaluated where #%d was due (%s)' % (eid, idx, expect_idx, evs))
                    break
                ok = bool((masks[idx] >> arg) & 1) if 0 <= arg < 32 else False
                if ok and idx + 1 < len(masks):
                    expect_idx = idx + 1
                else:
                    if ok:
                        complete += 1
                    expect_idx = 0
            else:
                if expect_idx != 0:
                    add('clauses.with', 'expectation %d: WITH pass stopped early (%s)' % (eid, evs))
            if pred.accepted and eid == pred.handler and len(masks) and not complete and not any(c[0] == 'N{' for c in pred.clauses):
                add('clauses.with', 'handler %d accepted the call without a complete WITH pass (%s)' % (eid, evs))
        if pred.accepted and pred.handler is not None and not any(c[0] == 'N{' for c in pred.clauses):
            i = reg.info[pred.handler]
            if i['shape']['nw'] and pred.handler not in per:
                add('clauses.with', 'handler %d accepted the call without evaluating its WITH clauses' % pred.handler)

    # ---- OK reports -------------------------------------------------------------------------
    if list(obs.ok) != list(pred.ok):
        if obs.ok and not pred.ok:
            sub = 'unexpected'
        elif pred.ok and not obs.ok:
            sub = 'missing'
        elif len(pred.ok) != len(obs.ok):
            sub = 'count'
        elif [t for _, t in obs.ok] == [t for _, t in pred.ok]:
            sub = 'wrong-reporter'
        else:
            sub = 'wrong-text'
        add('ok', 'OK reports %s, model %s' % (obs.ok, pred.ok), sub=sub)

    # ---- trace ------------------------------------------------------------------------------
    if not pred.trace_dontcare:
        ot = obs.trace
        if len(ot) != len(pred.trace):
            add('trace', '%d trace records, model %d: %s' % (len(ot), len(pred.trace), [(t[0], t[2]) for t in ot]))
        else:
            for (tid, tkind, eid, fn, args, result), (otid, f, line, text) in zip(pred.trace, ot):
                i = reg.info[eid]
                if otid != tid:
                    add('trace', 'record delivered to tracer %d, innermost live tracer is %d' % (otid, tid))
                if (base(f), line) != (i['file'], i['line']):
                    add('trace', 'record location %s:%d, handler is at %s:%d' % (base(f), line, i['file'], i['line']))
                if not text.startswith(i['text']):
                    add('trace', 'record text %r does not start with handler text %r' % (text[:60], i['text']))
                err = check_args_printed(text[len(i['text']):], fn, args)
                if err:
                    add('trace', 'record: %s in %r' % (err, text))
                tail = text
                if result is None:
                    pass
                elif result[0] in ('ret', 'ref'):
                    if not re.search(r'->\s*%d\b' % result[1], tail):
                        add('trace', 'record lacks returned value %d: %r' % (result[1], text))
                elif result[0] == 'void':
                    if '->' in tail or 'threw' in tail:
                        add('trace', 'void call traced with a result: %r' % text)
                elif result[0] == 'exc' and result[1] == 'P':
                    if 'P%d' % result[2] not in tail or 'what()' not in tail:
                        add('trace', 'record lacks what() of thrown exception P%d: %r' % (result[2], text))
                elif result[0] == 'exc':
                    if 'unknown' not in tail.lower():
                        add('trace', 'non-std exception not noted as unknown: %r' % text)

    # ---- probes (set_reporter return value) -------------------------------------------------
    if pred.probe is not None:
        want = [('R', pred.probe[0])] + ([('K', pred.probe[1])] if pred.probe[1] is not None else [])
        got = obs.probe
        if got != want:
            add('setrep', 'set_reporter returned callables that reach %s, previously installed were %s' % (got, want))

    # ---- creation result ----------------------------------------------------------------------
    if pred.create is not None and obs.create != pred.create:
        add('create', 'creation result %s, model %s' % (obs.create, pred.create))
    if pred.assign is not None and obs.assign != pred.assign:
        add('watch.assign', 'payload after assignment %s, model %s' % (obs.assign, pred.assign))

    # ---- flags --------------------------------------------------------------------------------
    if obs.q or obs.qs:
        for eid, fl in pred.flags.items():
            if eid in obs.q and obs.q[eid] != fl:
                i = reg.info.get(eid)
                ex = set()
                if i and i['mon']:
                    ex.add('mon')
                if is_call_op and pred.accepted is False:
                    ex.add('rejected')
                if is_call_op and pred.handler is not None and eid != pred.handler:
                    ex.add('nonhandler')
                if i and not i['mon'] and (i['shape']['lim'] in ('forbid', 't0')):
                    ex.add('forbid')
                add('flags', 'expectation %d (satisfied,saturated)=%s, model %s' % (eid, obs.q[eid], fl), ex)
        for eid in obs.q:
            if eid not in pred.flags:
                add('harness', 'flag reported for unknown expectation %d' % eid)
        for sid, c in pred.seqc.items():
            if sid in obs.qs and obs.qs[sid] != c:
                add('seq.completed', 'sequence %d is_completed()=%s, model %s' % (sid, obs.qs[sid], c))
    return mm
