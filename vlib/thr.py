"""C12: concurrent workloads under ThreadSanitizer, crash / deadlock watchdog, conservation
checks and an offline linearizability check of every recorded history against the
sequential reference model."""
import os, sys, re, json, time, random, subprocess, hashlib, glob, tempfile, shutil
from multiprocessing import Pool
from . import build, shapes, model, oracle, engine, runner, lin

VERIF = build.VERIF
SRC = os.path.join(VERIF, 'drivers', 'scen', 'thr_driver.cpp')
INF = -1


def _gen(srcdir):
    return shapes.generate(srcdir, core_only=True)['files']


def build_thr(config='tsan'):
    xh = hashlib.sha256(open(os.path.join(VERIF, 'vlib', 'shapes.py'), 'rb').read()).hexdigest()
    extra = []
    if config == 'tsan-cm':
        extra = [os.path.join(VERIF, 'drivers', 'scen', 'sched_mutex.hpp')]
    exe, bdir = build.build('thr', config, [SRC], gen=_gen, extra_hash=xh + 'core')
    meta = json.load(open(os.path.join(bdir, 'src', 'shapes.json')))
    return exe, meta


class Trial:
    __slots__ = ('pre', 'threads', 'post', 'info')


THREAD_SHAPES = ['f_rt', 'f_rt', 'f_rt_q1_limfirst', 'f_rt_q1_seqfirst', 'f_rt_q2', 'f_rt_w1s1', 'f_rt_tstd', 'v_rt', 'v_rt_q1']


def gen_trial(meta, rng, nthreads, maxops=7, tiny=False):
    core = {s['core']: s for s in meta['shapes'] if s['core']}
    sites = meta['mon_sites']
    t = Trial()
    pre = [('obj', 1, 'M'), ('obj', 2, 'M'), ('seq', 3), ('seq', 4)]
    longlived = []

    def exp(e, corename, obj, slot=0, **p):
        s = core[corename]
        return ('exp', e, s['id'], slot % len(s['slots']), obj, p)
    pre.append(exp(10, 'f_allow', 1, mask=1, val=0)); longlived.append(10)
    pre.append(exp(11, 'f_rt_q1_limfirst', 1, mask=2, lo=0, hi=INF, s0=3, val=0)); longlived.append(11)
    pre.append(exp(12, 'f_rt', 2, mask=3, lo=0, hi=INF, val=0)); longlived.append(12)
    pre.append(exp(13, 'v_rt_q1', 2, mask=15, lo=0, hi=INF, s0=4, val=0)); longlived.append(13)
    if rng.random() < 0.5:
        pre.append(exp(14, 'f_rt_q1_limfirst', 1, slot=1, mask=4, lo=rng.choice([0, 1]), hi=rng.choice([1, 2, INF]), s0=3, val=0)); longlived.append(14)
    threads = []
    leftovers_exp, leftovers_obj = [], []
    for ti in range(nthreads):
        base = 100 + 60 * ti
        nid = [base]

        def fresh():
            nid[0] += 1
            return nid[0]
        ops = []
        own_exps, own_objs, own_mons = [], [], {}
        n = rng.randint(2, 3) if tiny else rng.randint(3, maxops)
        guard = 0
        while len(ops) < n and guard < 50:
            guard += 1
            r = rng.random()
            if r < 0.30:
                o = rng.choice([1, 1, 2])
                fn = 'f' if o == 1 or rng.random() < 0.6 else 'v'
                ops.append(('call', o, fn, rng.choice([0, 1, 2, 2, 3, 3])))
            elif r < 0.55:
                cn = rng.choice(THREAD_SHAPES)
                s = core[cn]
                tgt = rng.choice([1, 1, 2] + [o for o, k in own_objs if k in 'MW'])
                p = dict(mask=rng.choice([4, 8, 12, 12]), val=0)
                lo = rng.choice([0, 1, 1, 2])
                hi = rng.choice([lo, lo + 1, lo + 2, INF])
                if lo == 0 and hi == 0:
                    hi = 1
                if rng.random() < (0.12 if s['nq'] else 0.03) and lo > 0:
                    hi = lo - 1      # inverted run-time bounds: the statement throws; after IN_SEQUENCE the half-built expectation is torn down again
                p['lo'], p['hi'] = lo, hi
                if s['nq'] >= 1:
                    sq = rng.sample([3, 4], s['nq'])
                    for j, x in enumerate(sq):
                        p['s%d' % j] = x
                if s['nw']:
                    p['w0'] = 15
                e = fresh()
                ops.append(('exp', e, s['id'], ti % len(s['slots']), tgt, p))
                if not (hi != INF and lo > hi):
                    own_exps.append(e)
            elif r < 0.67 and own_exps:
                e = rng.choice(own_exps)
                own_exps.remove(e)
                ops.append(('rmexp', e))
            elif r < 0.77:
                c = own_exps + longlived
                ops.append(('qexp', rng.choice(c)))
            elif r < 0.85:
                ops.append(('qseq', rng.choice([3, 4])))
            elif r < 0.90 and len(own_objs) < 2:
                o = fresh()
                k = rng.choice('MWWP')
                ops.append(('obj', o, k))
                own_objs.append((o, k))
            elif r < 0.95 and own_objs:
                o, k = rng.choice(own_objs)
                if k in 'WP' and o not in own_mons:
                    nseq = rng.choice([0, 1, 1, 2])
                    st = [x for x in sites if x['cls'] == k and x['nseq'] == nseq][ti % 2]
                    e = fresh()
                    ops.append(('mon', e, st['site'], o) + tuple(rng.sample([3, 4], nseq)))
                    own_mons[o] = e
                elif k in 'MW':
                    ops.append(('call', o, 'f', rng.choice([2, 3])))
            elif own_objs:
                # destroy an own object (only if none of its expectations is still registered in a shared sequence
                # while others may use it: destruction of a mock with sequenced pending expectations is don't-care)
                o, k = rng.choice(own_objs)
                own_objs.remove((o, k))
                ops.append(('rmobj', o))
        # release own things at the end (concurrent destruction) most of the time
        if rng.random() < 0.75:
            rng.shuffle(own_exps)
            for e in list(own_exps):
                ops.append(('rmexp', e))
            own_exps = []
        leftovers_exp += own_exps + list(own_mons.values())
        leftovers_obj += [o for o, k in own_objs]
        threads.append(ops)
    # a shared watched object whose requirement is released by one thread while another thread destroys the object
    # (two different objects: both operations are legal concurrently)
    shared_w = None
    if rng.random() < (0.7 if tiny else 0.45):
        nseq = rng.choice([0, 0, 1])
        st = [x for x in sites if x['cls'] == 'P' and x['nseq'] == nseq][0]
        pre.append(('obj', 5, 'P'))
        pre.append(('mon', 15, st['site'], 5) + ((3,) if nseq else ()))
        shared_w = [True, True]   # object alive, monitor alive (as far as the program text goes)
        ta, tb = rng.randrange(nthreads), rng.randrange(nthreads)
        if rng.random() < 0.85:
            ops = threads[ta]
            ops.insert(rng.randint(0, len(ops)), ('rmobj', 5))
            shared_w[0] = False
        if rng.random() < 0.65:
            ops = threads[tb]
            ops.insert(rng.randint(0, len(ops)), ('rmexp', 15))
            shared_w[1] = False
        else:
            # the requirement stays alive to the end: other threads poll it while the object is being destroyed
            for _ in range(rng.randint(1, 2)):
                ops = threads[rng.randrange(nthreads)]
                ops.insert(rng.randint(0, len(ops)), ('qexp', 15))
    # a mock destroyed by one thread while other threads release (not call) expectations that were placed on it,
    # one of them saturated: the expectation objects are not the mock, so both are legal concurrently
    shared_m = None
    if rng.random() < (0.6 if tiny else 0.4):
        pre.append(('obj', 6, 'M'))
        hi16 = rng.choice([1, 1, 2])
        pre.append(exp(16, 'f_rt', 6, slot=2, mask=4, lo=1, hi=hi16, val=0))
        pre.append(exp(17, 'f_rt', 6, slot=3, mask=8, lo=rng.choice([0, 1]), hi=INF, val=0))
        if rng.random() < 0.7:
            pre.append(('call', 6, 'f', 2))       # 16 handles it (and is saturated if hi16 == 1)
        shared_m = {'obj': True, 16: True, 17: True}
        for what, opx in ((('obj', ('rmobj', 6))), ((16, ('rmexp', 16))), ((17, ('rmexp', 17)))):
            if rng.random() < 0.85:
                ops = threads[rng.randrange(nthreads)]
                ops.insert(rng.randint(0, len(ops)), opx)
                shared_m[what] = False
    post = []
    # the library's stream_tracer on one shared stream, installed before the threads start and removed after they joined
    traced = rng.random() < 0.2
    if traced:
        pre.append(('tr', 900, 1))
    for e in leftovers_exp + longlived:
        post.append(('qexp', e))
    if shared_m:
        for e in (16, 17):
            if shared_m[e]:
                post.append(('qexp', e))
                post.append(('rmexp', e))
        if shared_m['obj']:
            post.append(('rmobj', 6))
    if shared_w:
        if shared_w[1]:
            post.append(('qexp', 15))
            post.append(('rmexp', 15))
        if shared_w[0]:
            post.append(('rmobj', 5))
    post += [('qseq', 3), ('qseq', 4)]
    for e in leftovers_exp:
        post.append(('rmexp', e))
    for o in leftovers_obj:
        post.append(('rmobj', o))
    for e in longlived:
        post.append(('rmexp', e))
    post += [('rmobj', 1), ('rmobj', 2), ('rmseq', 3), ('rmseq', 4)]
    if traced:
        post.append(('rmtr', 900))
    t.pre, t.threads, t.post = pre, threads, post
    return t


def sanitize_trial(meta, t):
    """Enforce the caller's obligations and the territory rules on a generated trial:
    monitors released only after/with their object by the owner, own objects destroyed only when no
    sequenced expectation of theirs is pending (don't-care territory), every mon before its object's death..."""
    # drop rmobj of own mocks that still carry sequenced expectations created by the same thread and not yet released
    for ops in t.threads:
        live_seq_exps = {}
        out = []
        for op in ops:
            if op[0] == 'exp':
                sh = [s for s in meta['shapes'] if s['id'] == op[2]][0]
                if sh['nq'] and op[4] not in (1, 2):
                    live_seq_exps.setdefault(op[4], set()).add(op[1])
            if op[0] == 'rmexp':
                for v in live_seq_exps.values():
                    v.discard(op[1])
            if op[0] == 'rmobj' and live_seq_exps.get(op[1]):
                continue
            out.append(op)
        ops[:] = out
    return t


def trial_text(i, t, delays=None, rng=None, sched=None):
    L = ['TRIAL %d' % i]
    if sched is not None:
        L.append('SCHED ' + ' '.join(str(x) for x in sched))
    for op in t.pre:
        L.append(model.op_to_line(op))
    for ops in t.threads:
        L.append('T x')
        for op in ops:
            ln = model.op_to_line(op)
            if rng is not None and rng.random() < 0.3:
                k, rest = ln.split(' ', 1) if ' ' in ln else (ln, '')
                ln = '%s ~%d %s' % (k, rng.choice([50, 200, 1000, 5000]), rest)
            L.append(ln)
    L.append('POST')
    for op in t.post:
        L.append(model.op_to_line(op))
    L.append('END')
    return '\n'.join(L) + '\n'


_blk = re.compile(r'^(B|F) ')


def parse_trials(text):
    """-> {trial: {'pre': [rec], 'threads': [[rec]], 'post': [rec], 'done': bool}}; rec = (t_call, t_ret, Obs)"""
    out = {}
    begun = []
    cur = None
    sect = None
    for chunk in re.split(r'(?m)^(?=BEGIN |TRIAL |PRE$|T \d+$|POST$|END$|SCHEDLOG)', text):
        if not chunk:
            continue
        head, _, body = chunk.partition('\n')
        if head.startswith('BEGIN'):
            begun.append(int(head.split()[1]))
            continue
        if head.startswith('TRIAL'):
            cur = {'pre': [], 'threads': [], 'post': [], 'done': False}
            out[int(head.split()[1])] = cur
            continue
        if cur is None:
            continue
        if head == 'END':
            cur['done'] = True
            continue
        if head.startswith('SCHEDLOG'):
            cur['schedlog'] = [(int(a), int(b)) for a, b in re.findall(r'D (\d+) (\d+);', head)]
            continue
        try:
            recs = parse_records(body)
        except (ValueError, IndexError, KeyError):
            cur['corrupt'] = True     # garbage in the driver's own log: memory corruption in the process
            recs = []
        if head == 'PRE':
            cur['pre'] = recs
        elif head == 'POST':
            cur['post'] = recs
        else:
            cur['threads'].append(recs)
    return out, begun


def parse_records(body):
    recs = []
    # reuse the scenario parser: wrap as a scenario with B/F lines carrying timestamps
    lines = body.split('\n')
    buf, t0 = [], None
    for ln in lines:
        if ln.startswith('B '):
            t0 = int(ln.split()[2])
            buf = ['S 0', 'B 0']
        elif ln.startswith('F '):
            t1 = int(ln.split()[1])
            buf.append('F')
            buf.append('E')
            parsed, _ = oracle.parse_scenarios('\n'.join(buf))
            recs.append((t0, t1, parsed[0]['ops'][0]))
            buf = []
        elif ln:
            buf.append(ln)
    return recs


_race_hdr = re.compile(r'WARNING: ThreadSanitizer: ([^\(\n]+)')


def tsan_reports(logdir):
    """Parse TSan log files: list of (kind, key, text); key = innermost trompeloeil frames of the first two stacks."""
    reps = []
    for f in glob.glob(os.path.join(logdir, 'tsan.*')):
        txt = open(f, errors='replace').read()
        for blk in txt.split('==================')[0:]:
            m = _race_hdr.search(blk)
            if not m:
                continue
            kind = m.group(1).strip()
            frames = []
            for st in re.split(r'\n\s*\n', blk):
                head = st.strip().split('\n', 1)[0]
                if not re.match(r'(Read|Write|Previous|Atomic|Cycle|Mutex|Thread T\d+ .*acquired)', head.strip(), re.I) and 'of size' not in head:
                    continue
                if not re.match(r'\s*(read|write|previous (read|write|atomic)|atomic (read|write))\b.*of size', head, re.I):
                    continue
                fr = re.findall(r'#\d+ (.*?) /\S+:\d+', st)
                tf = [x for x in fr if 'trompeloeil::' in x]
                if tf:
                    f0 = re.sub(r'<[^<>]*>', '', re.sub(r'<[^<>]*>', '', re.sub(r'<[^<>]*>', '', tf[0])))
                    f0 = re.sub(r'\(.*', '', f0).strip()
                    frames.append(f0)
            key = kind + ':' + ' / '.join(sorted(set(frames[:2])))
            reps.append((kind, key, blk.strip()[:6000]))
    return reps


def run_thr(exe, text, logdir, timeout):
    env = dict(os.environ)
    env['TSAN_OPTIONS'] = 'halt_on_error=0:exitcode=0:log_path=%s/tsan:second_deadlock_stack=1:history_size=4' % logdir
    try:
        p = subprocess.run([exe], input=text.encode(), stdout=subprocess.PIPE, stderr=subprocess.PIPE, env=env, timeout=timeout)
        return p.returncode, p.stdout.decode('latin-1'), p.stderr.decode('latin-1'), False
    except subprocess.TimeoutExpired as ex:
        return -9, (ex.stdout or b'').decode('latin-1'), (ex.stderr or b'').decode('latin-1'), True


def conservation(meta, t, rec):
    """Checks that need no linearization: handled counts derived from returned ids vs final flags / reports."""
    errs = []
    shapes_by_id = {s['id']: s for s in meta['shapes']}
    info = {}
    for ops in [t.pre] + t.threads:
        for op in ops:
            if op[0] == 'exp':
                s = shapes_by_id[op[2]]
                p = op[5]
                if s['act'] not in ('ret', 'lrret', 'tstd', 'tint'):
                    continue
                if s['rt']:
                    L = p.get('lo', 1)
                    H = p.get('hi', 1) if s['lim'] == 'rt' else L
                else:
                    L, H = s['L'], s['H']
                info[op[1]] = (L, H)
    counts = {}
    allrecs = []
    for ops, recs in [(t.pre, rec['pre'])] + list(zip(t.threads, rec['threads'])) + [(t.post, rec['post'])]:
        if len(ops) != len(recs):
            errs.append(('harness', 'recorded %d operations for a program of %d' % (len(recs), len(ops))))
            return errs
        for op, (a, b, ob) in zip(ops, recs):
            allrecs.append((op, ob))
            if op[0] == 'call' and ob.outcome:
                oc = ob.outcome
                hid = None
                if oc[0] in ('ret',):
                    hid = oc[1]
                elif oc[0] == 'exc' and oc[1] in ('P', 'I'):
                    hid = oc[2]
                if hid is not None:
                    counts[hid] = counts.get(hid, 0) + 1
                if oc[0] == 'fatal' and len(ob.reports) != 1:
                    errs.append(('call.reject.count', 'rejected call with %d reports' % len(ob.reports)))
                if oc[0] != 'fatal' and ob.reports:
                    errs.append(('call.accept', 'accepted call with reports %s' % [r[4][:60] for r in ob.reports]))
                if oc[0] != 'fatal' and len(ob.ok) != 1:
                    errs.append(('ok', 'accepted call with %d OK reports' % len(ob.ok)))
    for e, n in counts.items():
        if e in info and info[e][1] != INF and n > info[e][1]:
            errs.append(('flags', 'expectation %d (bounds %s) handled %d calls' % (e, info[e], n)))
    for op, ob in zip(t.post, [r[2] for r in rec['post']]):
        if op[0] == 'qexp' and op[1] in info:
            L, H = info[op[1]]
            n = counts.get(op[1], 0)
            want = (n >= L, H != INF and n == H)
            got = ob.q.get(op[1])
            if got != want:
                errs.append(('flags', 'final flags of expectation %d are %s; it returned its id %d times, bounds %s' % (op[1], got, n, (L, H))))
    for op, ob in allrecs:
        if op[0] == 'rmexp' and op[1] in info:
            L, H = info[op[1]]
            n = counts.get(op[1], 0)
            for r in ob.reports:
                if oracle.classify(r[4]) == 'unfulfilled':
                    m2 = oracle._count_act.search(r[4])
                    act = None
                    if m2:
                        act = 0 if m2.group(1) == 'never called' else (1 if m2.group(1) == 'called once' else int(m2.group(2)))
                    if n >= L or act != n:
                        errs.append(('eol.reports', 'expectation %d reported unfulfilled (actual %s), it returned its id %d times, lower bound %d' % (op[1], act, n, L)))
    return errs


def _worker(args):
    exe, metapath, seed, chunk, ntrials, cfg = args
    meta = json.load(open(metapath))
    rng = random.Random((seed * 7919 + chunk * 104729) & 0xffffffff)
    out = dict(trials=0, ops=0, races={}, viol=[], inconclusive=[], threads_hist={}, lin=dict(checked=0, ok=0, budget=0, nodes=0),
               interleavings=set(), samples=[], calls=0, accepted=0, reports=0, concurrent_pairs=0)
    logdir = tempfile.mkdtemp(prefix='tsanlog-', dir=os.path.join(VERIF, 'out'))
    try:
        per = 80
        done = 0
        while done < ntrials:
            batch = []
            for i in range(min(per, ntrials - done)):
                nth = rng.choice(cfg['threads'])
                t = sanitize_trial(meta, gen_trial(meta, rng, nth, maxops=cfg['maxops'], tiny=cfg.get('tiny', False)))
                batch.append(t)
            text = ''.join(trial_text(i, t, rng=rng if cfg.get('delays') else None) for i, t in enumerate(batch))
            rc, so, se, to = run_thr(exe, text, logdir, cfg['timeout'])
            parsed, begun = parse_trials(so)
            if to or rc != 0:
                bad = [b for b in begun if b not in parsed or not parsed[b]['done']]
                which = bad[0] if bad else (begun[-1] if begun else 0)
                t = batch[which]
                # isolate: run the suspect trial alone, up to 20 times (schedules differ)
                hung = crashed = 0
                last_err = ''
                for rep in range(10):
                    rc2, so2, se2, to2 = run_thr(exe, trial_text(0, t) , logdir, 30)
                    if to2:
                        hung += 1
                    elif rc2 != 0:
                        crashed += 1
                        last_err = se2[-2500:]
                if hung or crashed or rc != 0 and not to:
                    kind = 'hang' if (to or hung) else 'crash'
                    sig = engine.crash_signature(rc, se if not last_err else last_err)
                    out['viol'].append(dict(key='%s|%s' % (kind, sig if kind == 'crash' else 'deadlock-or-livelock'),
                                            detail='%s in concurrent trial (batch rc=%s timeout=%s; alone: %d/10 hung, %d/10 crashed): %s' % (kind, rc, to, hung, crashed, (last_err or se)[-2000:]),
                                            trial=trial_text(0, t)))
                else:
                    # a loaded machine, not a property of the code: run the batch once more before calling it inconclusive
                    rc, so, se, to = run_thr(exe, text, logdir, cfg['timeout'])
                    parsed, begun = parse_trials(so)
                    if to or rc != 0:
                        out['inconclusive'].append('batch watchdog fired twice (rc=%s timeout=%s) but the suspect trial runs alone' % (rc, to))
            for i, t in enumerate(batch):
                if i not in parsed or not parsed[i]['done']:
                    continue
                rec = parsed[i]
                if rec.get('corrupt'):
                    out['viol'].append(dict(key='crash|corrupted-log', detail='the driver\'s own event log of this trial contains garbage (memory corruption in the process under test)', trial=trial_text(0, t)))
                    continue
                out['trials'] += 1
                nth = len(t.threads)
                out['threads_hist'][nth] = out['threads_hist'].get(nth, 0) + 1
                nops = sum(len(x) for x in t.threads)
                out['ops'] += nops + len(t.pre) + len(t.post)
                errs = conservation(meta, t, rec)
                for a, d in errs:
                    out['viol'].append(dict(key='conservation|' + a, detail=d, trial=trial_text(0, t)))
                # order in which operations returned = a fingerprint of the interleaving that was observed
                evs = []
                for ti, recs in enumerate(rec['threads']):
                    for (a, b, ob) in recs:
                        evs.append((b, ti))
                        if ob.outcome is not None:
                            out['calls'] += 1
                            if ob.outcome[0] != 'fatal':
                                out['accepted'] += 1
                        out['reports'] += len(ob.reports)
                evs.sort()
                fp = tuple(ti for _, ti in evs)
                out['interleavings'].add(hash((fp, nth, nops)))
                # concurrency actually observed: pairs of operations of different threads whose intervals overlap
                iv = [(a, b, ti) for ti, recs in enumerate(rec['threads']) for (a, b, ob) in recs]
                ov = 0
                for x in range(len(iv)):
                    for y in range(x + 1, len(iv)):
                        if iv[x][2] != iv[y][2] and iv[x][0] < iv[y][1] and iv[y][0] < iv[x][1]:
                            ov += 1
                out['concurrent_pairs'] += ov
                if cfg.get('lin'):
                    r = lin.check(meta, t, rec, budget=cfg.get('lin_budget', 20000))
                    out['lin']['checked'] += 1
                    out['lin']['nodes'] += r['nodes']
                    if r['verdict'] == 'ok':
                        out['lin']['ok'] += 1
                    elif r['verdict'] == 'budget':
                        out['lin']['budget'] += 1
                    else:
                        out['viol'].append(dict(key='linearizability|' + r.get('why', 'no-order'), detail=r['detail'], trial=trial_text(0, t), history=r.get('history')))
                if len(out['samples']) < 1 and nops >= 6:
                    out['samples'].append(trial_text(0, t).split('\n'))
            done += len(batch)
            if len(out['viol']) > 10:
                break
        for kind, key, txt in tsan_reports(logdir):
            if key not in out['races']:
                out['races'][key] = txt
    finally:
        shutil.rmtree(logdir, ignore_errors=True)
    out['interleavings'] = list(out['interleavings'])
    return out


QUICK = dict(trials=6400, nchunks=32, threads=[2, 3, 4, 4, 6, 8], maxops=7, timeout=240, delays=True, lin=True)
THOROUGH = dict(trials=60000, nchunks=128, threads=[2, 3, 4, 5, 6, 7, 8], maxops=8, timeout=600, delays=True, lin=True)


def run(prop, tier, seed, config='tsan'):
    v = runner.Verdict(prop, tier, seed)
    cfg = dict(QUICK if tier == 'quick' else THOROUGH)
    if os.environ.get('VERIF_THR_TRIALS'):
        cfg['trials'] = int(os.environ['VERIF_THR_TRIALS'])
    try:
        exe, meta = build_thr(config)
    except build.BuildError as ex:
        v.inconclusive.append('threaded driver does not build: %s' % str(ex)[-1500:])
        return v.finish()
    os.makedirs(os.path.join(VERIF, 'out'), exist_ok=True)
    metapath = os.path.join(os.path.dirname(exe), 'src', 'shapes.json')
    per = cfg['trials'] // cfg['nchunks']
    tasks = [(exe, metapath, seed, c, per, cfg) for c in range(cfg['nchunks'])]
    # pair stress: very many tiny two-thread trials (1-3 operations each plus the shared-object scenarios), so that
    # narrow windows between two specific operations are hit by timing jitter; TSan + conservation only
    pcfg = dict(cfg, threads=[2, 2, 3], tiny=True, lin=False, delays=True)
    npair = cfg['trials'] * 4
    tasks += [(exe, metapath, seed + 1000003, 1000 + c, npair // cfg['nchunks'], pcfg) for c in range(cfg['nchunks'])]
    tot = dict(trials=0, ops=0, races={}, threads_hist={}, lin=dict(checked=0, ok=0, budget=0, nodes=0), calls=0, accepted=0, reports=0, concurrent_pairs=0)
    inter = set()
    samples = []
    with Pool(min(build.NCPU, len(tasks))) as pool:
        for r in pool.imap_unordered(_worker, tasks):
            for k in ('trials', 'ops', 'calls', 'accepted', 'reports', 'concurrent_pairs'):
                tot[k] += r[k]
            for k, x in r['threads_hist'].items():
                tot['threads_hist'][k] = tot['threads_hist'].get(k, 0) + x
            for k in tot['lin']:
                tot['lin'][k] += r['lin'][k]
            for k, txt in r['races'].items():
                tot['races'].setdefault(k, txt)
            inter.update(r['interleavings'])
            for x in r['viol']:
                v.violation(x['key'], x['detail'], dict(engine='thr', trial=x['trial'], history=x.get('history')))
            v.inconclusive += r['inconclusive']
            samples += r['samples'][:1]
    for key, txt in tot['races'].items():
        v.violation('tsan|' + key, txt[:3000], dict(engine='thr', tsan_report=txt))
    systematic = None
    try:
        stot, sviol, sinc, ssamples = run_systematic(seed, tier)
        systematic = dict(stot, sample=ssamples[:1])
        for x in sviol:
            v.violation(x['key'], x['detail'], dict(engine='thr', trial=x['trial'], history=x.get('history')))
        v.inconclusive += sinc
    except build.BuildError as ex:
        v.inconclusive.append('scheduling-mutex configuration does not build: %s' % str(ex)[-1200:])
    if tot['trials'] < (cfg['trials'] + npair) * 0.9:
        v.inconclusive.append('only %d of %d trials completed' % (tot['trials'], cfg['trials']))
    if tot['lin']['checked'] and tot['lin']['budget'] > 0.2 * tot['lin']['checked']:
        v.inconclusive.append('linearizability search exceeded its budget on %d of %d histories' % (tot['lin']['budget'], tot['lin']['checked']))
    v.coverage = dict(
        evaluations=tot['trials'], distinct_nontrivial=len(inter),
        rule='one evaluation = one concurrent trial (fresh shared mocks/sequences, 2..8 free-running threads with 3..8 operations each, seeded spin delays between operations) run under ThreadSanitizer; distinct non-trivial = distinct observed interleaving (order in which the operations of the different threads returned, by relaxed-atomic timestamps)',
        samples=samples[:2], operations=tot['ops'], trials_by_thread_count=tot['threads_hist'],
        calls=tot['calls'], calls_accepted=tot['accepted'], reports_observed=tot['reports'],
        overlapping_operation_pairs_observed=tot['concurrent_pairs'],
        tsan_distinct_reports=len(tot['races']), linearizability=tot['lin'], config=config, pair_stress_trials=npair,
        systematic_lock_order_enumeration=systematic)
    v.assumptions = ['ThreadSanitizer sees only the executions that ran and only synchronisation it intercepts',
                     'sequential reference model vlib/model.py; creation of a sequenced expectation is a compound operation (register / set bounds / become callable)']
    return v.finish()


def trial_from_text(meta, text):
    t = Trial()
    t.pre, t.threads, t.post = [], [], []
    cur = t.pre
    for ln in text.split('\n'):
        ln = ln.strip()
        if not ln or ln.startswith('TRIAL') or ln == 'END':
            continue
        if ln.startswith('T '):
            t.threads.append([])
            cur = t.threads[-1]
            continue
        if ln == 'POST':
            cur = t.post
            continue
        toks = [x for x in ln.split() if not x.startswith('~')]
        cur.append(engine.parse_ops(meta, [' '.join(toks)])[0])
    return t


def replay(prop, path, reps=300):
    w = json.load(open(path))
    exe, meta = build_thr('tsan')
    if 'trial' not in w:
        print('replay: this witness is a ThreadSanitizer report of a generated workload; re-run ./check C12 --tier quick to look for it again')
        return run(prop, 'quick', w.get('seed', 1))
    t = trial_from_text(meta, w['trial'] if isinstance(w['trial'], str) else '\n'.join(w['trial']))
    logdir = tempfile.mkdtemp(prefix='tsanlog-', dir=os.path.join(VERIF, 'out'))
    bad = []
    try:
        rng = random.Random(1)
        text = ''.join(trial_text(i, t, rng=rng) for i in range(reps))
        rc, so, se, to = run_thr(exe, text, logdir, 600)
        if to or rc != 0:
            bad.append('hang or crash (rc=%s timeout=%s): %s' % (rc, to, se[-1000:]))
        parsed, _ = parse_trials(so)
        for i in range(reps):
            if i in parsed and parsed[i]['done']:
                for a, d in conservation(meta, t, parsed[i]):
                    bad.append('conservation %s: %s' % (a, d))
                r = lin.check(meta, t, parsed[i])
                if r['verdict'] == 'violation':
                    bad.append('linearizability: ' + r['detail'])
        for kind, key, txt in tsan_reports(logdir):
            bad.append('tsan %s' % key)
    finally:
        shutil.rmtree(logdir, ignore_errors=True)
    if bad:
        for b in sorted(set(bad))[:8]:
            print('  ' + b[:400])
        print('VIOLATION property=%s replay=%s' % (prop, path))
        return 1
    print('replay: %d repetitions of the trial, no violation of %s on the current tree' % (reps, prop))
    return 0



# ---- systematic part: all lock-acquisition orders of tiny programs (scheduling mutex, replay DFS) ----
def _sys_worker(args):
    exe, metapath, seed, chunk, nprog, cap = args
    meta = json.load(open(metapath))
    rng = random.Random((seed * 48611 + chunk * 15485863) & 0xffffffff)
    out = dict(programs=0, schedules=0, exhaustive_programs=0, viol=[], inconclusive=[], decisions=0, lin_nodes=0, lin_budget=0, max_sched=0, samples=[])
    logdir = tempfile.mkdtemp(prefix='tsanlog-', dir=os.path.join(VERIF, 'out'))
    try:
        for pi in range(nprog):
            nth = rng.choice([2, 2, 3])
            t = sanitize_trial(meta, gen_trial(meta, rng, nth, tiny=True))
            frontier = [[]]
            done = 0
            exhausted = True
            while frontier:
                if done >= cap:
                    exhausted = False
                    break
                batch = frontier[:60]
                frontier = frontier[60:]
                text = ''.join(trial_text(i, t, sched=pre) for i, pre in enumerate(batch))
                rc, so, se, to = run_thr(exe, text, logdir, 120)
                parsed, begun = parse_trials(so)
                if to or rc != 0:
                    bad = [b for b in begun if b not in parsed or not parsed[b]['done']]
                    which = bad[0] if bad else 0
                    out['viol'].append(dict(key='systematic|%s' % ('deadlock' if to else 'crash'),
                                            detail='tiny program under the deterministic scheduler %s with schedule prefix %s: %s' % ('hangs' if to else 'dies', batch[which], se[-1500:]),
                                            trial=trial_text(0, t, sched=batch[which])))
                    break
                for i, pre in enumerate(batch):
                    if i not in parsed or not parsed[i]['done']:
                        continue
                    rec = parsed[i]
                    if rec.get('corrupt'):
                        out['viol'].append(dict(key='systematic|crash|corrupted-log', detail='the driver\'s own event log contains garbage (memory corruption) with schedule prefix %s' % pre, trial=trial_text(0, t, sched=pre)))
                        continue
                    dec = rec.get('schedlog', [])
                    done += 1
                    out['schedules'] += 1
                    out['decisions'] += len(dec)
                    chosen = [c for _, c in dec]
                    for j in range(len(pre), len(dec)):
                        w, c = dec[j]
                        for alt in range(nth):
                            if alt != c and (w >> alt) & 1:
                                frontier.append(chosen[:j] + [alt])
                    for a, d in conservation(meta, t, rec):
                        out['viol'].append(dict(key='systematic|conservation|' + a, detail=d, trial=trial_text(0, t, sched=chosen)))
                    r = lin.check(meta, t, rec, budget=30000)
                    out['lin_nodes'] += r['nodes']
                    if r['verdict'] == 'violation':
                        out['viol'].append(dict(key='systematic|linearizability|' + r.get('why', 'no-order'), detail='lock-acquisition order %s: %s' % (chosen, r['detail']),
                                                trial=trial_text(0, t, sched=chosen), history=r.get('history')))
                    elif r['verdict'] == 'budget':
                        out['lin_budget'] += 1
                if len(out['viol']) > 5:
                    break
            out['programs'] += 1
            out['max_sched'] = max(out['max_sched'], done)
            if exhausted and not frontier:
                out['exhaustive_programs'] += 1
            if len(out['samples']) < 1:
                out['samples'].append(dict(program=trial_text(0, t).split('\n'), schedules_enumerated=done, all=exhausted))
        for kind, key, txt in tsan_reports(logdir):
            out['viol'].append(dict(key='systematic|tsan|' + key, detail=txt[:2000], trial=''))
    finally:
        shutil.rmtree(logdir, ignore_errors=True)
    return out


def run_systematic(seed, tier):
    exe, meta = build_thr('tsan-cm')
    metapath = os.path.join(os.path.dirname(exe), 'src', 'shapes.json')
    nprog, cap, nch = (4, 400, 16) if tier == "quick" else (6, 1500, 32)
    tasks = [(exe, metapath, seed, c, nprog, cap) for c in range(nch)]
    tot = dict(programs=0, schedules=0, exhaustive_programs=0, decisions=0, lin_nodes=0, lin_budget=0, max_sched=0)
    viol, inconc, samples = [], [], []
    with Pool(min(build.NCPU, len(tasks))) as pool:
        for r in pool.imap_unordered(_sys_worker, tasks):
            for k in ('programs', 'schedules', 'exhaustive_programs', 'decisions', 'lin_nodes', 'lin_budget'):
                tot[k] += r[k]
            tot['max_sched'] = max(tot['max_sched'], r['max_sched'])
            viol += r['viol']
            inconc += r['inconclusive']
            samples += r['samples'][:1]
    # a search that ran out of budget decides nothing about that one schedule; it only makes the run inconclusive
    # when it happens often enough to hollow out the enumeration
    if tot['lin_budget'] > 0.05 * max(1, tot['schedules']):
        inconc.append('linearizability search over budget on %d of %d enumerated schedules' % (tot['lin_budget'], tot['schedules']))
    return tot, viol, inconc, samples


# ---- C17: calls made on other threads while a tracer is alive are traced too ----------------------------------
def traced_calls(v, seed, tier, what='trace'):
    """Tracer installed before the threads start, removed after they joined (documented obligation);
    every accepted call of every thread must deliver exactly one record to it. Returns #calls checked."""
    try:
        exe, meta = build_thr('tsan')
    except build.BuildError as ex:
        v.inconclusive.append('threaded driver does not build: %s' % str(ex)[-800:])
        return 0
    rng = random.Random(seed * 60013 + 7)
    n = 150 if tier == 'quick' else 3000
    shapes_by_id = {s['id']: s for s in meta['shapes']}
    trials = []
    for _ in range(n):
        t = sanitize_trial(meta, gen_trial(meta, rng, rng.choice([2, 3, 4]), maxops=6))
        if what == 'trace':
            t.pre.append(('tr', 900, 0))
            t.post.insert(0, ('rmtr', 900))
        trials.append(t)
    logdir = tempfile.mkdtemp(prefix='tsanlog-', dir=os.path.join(VERIF, 'out'))
    checked = 0
    try:
        for b in range(0, n, 50):
            batch = trials[b:b + 50]
            rc, so, se, to = run_thr(exe, ''.join(trial_text(i, t) for i, t in enumerate(batch)), logdir, 300)
            parsed, _ = parse_trials(so)
            if rc != 0 or to:
                v.inconclusive.append('threaded tracer scene: driver exit %s timeout %s' % (rc, to))
                continue
            for i, t in enumerate(batch):
                if i not in parsed or not parsed[i]['done']:
                    continue
                sites = {}
                for ops in [t.pre] + t.threads:
                    for op in ops:
                        if op[0] == 'exp':
                            sl = shapes_by_id[op[2]]['slots'][op[3]]
                            sites[op[1]] = (sl['file'], sl['line'], sl['text'])
                for ti, (ops, recs) in enumerate(zip(t.threads, parsed[i]['threads'])):
                    for op, (a, b2, ob) in zip(ops, recs):
                        if op[0] != 'call' or ob.outcome is None or ob.outcome[0] == 'fatal':
                            continue
                        checked += 1
                        hid = ob.outcome[1] if ob.outcome[0] == 'ret' else (ob.outcome[2] if ob.outcome[0] == 'exc' and len(ob.outcome) > 2 else None)
                        bad = None
                        if what == 'ok':
                            # the OK reporter was installed on the main thread before the workers started
                            if len(ob.ok) != 1:
                                bad = 'accepted call on thread %d delivered %d OK reports' % (ti, len(ob.ok))
                            elif hid in sites and ob.ok[0][1] != sites[hid][2]:
                                bad = 'OK report text %r, handler text %r' % (ob.ok[0][1], sites[hid][2])
                            if bad:
                                v.violation('ok|threads', 'OK reporter installed before threads start: %s (operation %s)' % (bad, model.op_to_line(op)),
                                            dict(engine='thr', trial=trial_text(0, t)))
                            continue
                        if len(ob.trace) != 1:
                            bad = 'accepted call on thread %d delivered %d trace records to the live tracer' % (ti, len(ob.trace))
                        else:
                            tid, f, line, text = ob.trace[0]
                            if tid != 900:
                                bad = 'record delivered to tracer %s' % tid
                            elif hid in sites and (oracle.base(f), line) != sites[hid][:2]:
                                bad = 'record location %s:%d, handler %d is at %s:%d' % (oracle.base(f), line, hid, sites[hid][0], sites[hid][1])
                            elif hid in sites and not text.startswith(sites[hid][2]):
                                bad = 'record text %r, handler text %r' % (text[:50], sites[hid][2])
                        if bad:
                            v.violation('trace|threads', 'tracer alive while threads call: %s (operation %s)' % (bad, model.op_to_line(op)),
                                        dict(engine='thr', trial=trial_text(0, t)))
    finally:
        shutil.rmtree(logdir, ignore_errors=True)
    return checked
