"""Property checks served by the scenario engine (C01-C08, C13-C17)."""
import json, os, sys
from . import engine, plans, runner, model, oracle, build

RULES = {
    'C01': 'seeded random + enumerated operation histories over <=4 mocks; non-trivial = distinct history in which at least one call was rejected (no match / forbidden / out of sequence) and every call outcome, report count, clause log and flag set was compared with the reference model',
    'C02': 'histories with overlapping matchers; non-trivial = distinct history in which >=2 live expectations accepted the same call (candidates counted by the model)',
    'C03': 'histories over run-time and compile-time bounds; non-trivial = distinct history in which an expectation saturated, a call matched only saturated expectations, or RT_TIMES was inverted',
    'C04': 'lifetime-heavy histories; non-trivial = distinct history in which an expectation ended its life below its lower bound (reported, or silently because already named / detached)',
    'C05': 'sequence-heavy histories; non-trivial = distinct history with a sequence-blocked call, a skipped optional step, or a destruction out of sequence',
    'C06': 'sequence-heavy histories with is_completed() after every step; non-trivial = distinct history with a sequence torn down while entries pend, a skipped optional step or a blocked call',
    'C07': 'stacks of forbidding and allowing expectations; non-trivial = distinct history in which a forbidding expectation was the designated candidate',
    'C08': 'clause-rich shapes; non-trivial = distinct history with >=2 side effects on the handler, a throwing side effect, a THROW, or a nested mock call',
    'C13': 'watched-object histories; non-trivial = distinct history with a monitored death, an unexpected death, a requirement released first, a copy, or an assignment to a monitored object',
    'C14': 'hostile destruction / move orders under ASan+UBSan+LSan+list sanity assertions; non-trivial = distinct history in which a mock holding expectations was moved or a moved mock was called',
    'C15': 'histories producing every kind of report; non-trivial = distinct history containing at least one violation report whose severity, culprit and contents were checked',
    'C16': 'histories with reporter replacement; non-trivial = distinct history with at least one accepted call (OK report checked)',
    'C17': 'histories with nested tracer lifetimes; non-trivial = distinct history in which at least one call was traced',
}


def run(prop, tier, seed):
    v = runner.Verdict(prop, tier, seed)
    spec = plans.SCEN[prop]
    n = spec['n'][0 if tier == 'quick' else 1]
    plan = [(('random', spec['profile']), n, 64 if tier == 'quick' else 256)]
    for prof, frac in spec.get('extra_profiles', []):
        plan.append((('random', prof), int(n * frac), 32 if tier == 'quick' else 128))
    from . import exh
    plan += exh.plan_for(prop, tier)
    try:
        res, meta = engine.run_plan(prop, plan, seed, keep=set(spec['trig']))
    except build.BuildError as ex:
        v.inconclusive.append('driver does not build against the current tree: %s' % str(ex)[-1500:])
        return v.finish()
    # thorough tier: the same random workload also at the suite's language level (C++14) and, for the
    # memory-safety property, under a second compiler's ASan (different red zones, use-after-scope)
    extra_cfg = []
    if tier == 'thorough':
        extra_cfg.append(('asan14', 0.15))
        if prop == 'C14':
            extra_cfg.append(('clang-asan', 0.3))
    configs_run = {'asan': res.evaluations}
    for cfg, frac in extra_cfg:
        try:
            r2, _ = engine.run_plan(prop, [(('random', spec['profile']), int(n * frac), 128)], seed + 7919, config=cfg, keep=set(spec['trig']))
        except build.BuildError as ex:
            v.inconclusive.append('driver does not build in configuration %s: %s' % (cfg, str(ex)[-800:]))
            continue
        for x in r2.violations:
            x['key'] = '%s|%s' % (cfg, x['key'])
        configs_run[cfg] = r2.evaluations
        res.merge(r2)
    # literal witnesses of repaired defects: ordinary regression scenarios of the owning properties
    exe, _ = engine.build_driver('asan')
    nprobe = 0
    rg = json.load(open(os.path.join(build.VERIF, 'probes', 'regress.json')))
    for pb in rg['probes']:
        if prop in pb['props']:
            r2 = engine.Result()
            engine.run_literal(prop, exe, meta, engine.parse_ops(meta, pb['ops']), r2)
            for x in r2.violations:
                x['key'] = 'regress:%s|%s' % (pb['name'], x['key'])
            res.merge(r2)
            nprobe += 1
    # known findings of this property: literal probe in its own process; prints KNOWN-FINDING while the defect is present
    known, _fixed = runner.load_known()
    for kf in known:
        if kf['prop'] == prop and kf['witness'].endswith('.json'):
            pb = json.load(open(os.path.join(build.VERIF, kf['witness'])))
            r3 = engine.Result()
            engine.run_literal(prop, exe, meta, engine.parse_ops(meta, pb['ops']), r3, two_monitors=True)
            v.inconclusive += r3.inconclusive
            if r3.violations:
                v.known_hits.append('%s: %s [observed: %s]' % (kf['key'], pb['what'][:160], r3.violations[0]['key']))
    nscoped = 0
    if prop in ('C01', 'C04', 'C07', 'C13'):
        from . import scoped
        nscoped = scoped.run(v, prop)
    nthreadtrace = 0
    ntracevals = 0
    if prop == 'C17':
        from . import thr, tracevals
        nthreadtrace = thr.traced_calls(v, seed, tier)
        ntracevals = tracevals.run(v, prop)
    if prop == 'C16':
        from . import thr
        nthreadtrace = thr.traced_calls(v, seed, tier, what='ok')
    if prop == 'C08':
        from . import tracevals
        ntracevals = tracevals.run(v, prop, traced=False)   # class-type values returned by value / reference: what the caller receives
    bykey = {}
    for x in res.violations:
        cur = bykey.get(x['key'])
        if cur is None or len(x.get('ops', [])) < len(cur.get('ops', [])):
            bykey[x['key']] = x
    shrunk = []
    for key, x in sorted(bykey.items())[:8]:
        if x.get('ops') and x['aspect'] not in ('harness',):
            try:
                ops2, x2 = engine.shrink(prop, exe, meta, x['ops'], x['aspect'])
            except Exception as ex:
                ops2, x2 = None, None
            if ops2:
                x2 = dict(x2)
                x2['ops'] = ops2
                x2['key'] = key
                x2['shrunk_from'] = len(x['ops'])
                x = x2
        shrunk.append(x)
    for x in shrunk:
        w = dict(engine='scen', shrunk_from=x.get('shrunk_from'), ops=[model.op_to_line(o) for o in x.get('ops', [])], op_index=x.get('op_index'),
                 aspect=x['aspect'], ctx=x.get('ctx'), predicted=x.get('predicted'), observed=x.get('observed'))
        v.violation(x['key'], x['detail'], w)
    v.inconclusive += res.inconclusive
    trig = set()
    for t in spec['trig']:
        trig |= res.trig_hashes.get(t, set())
    if len(trig) < spec['minq']:
        v.inconclusive.append('only %d triggering scenarios (minimum %d)' % (len(trig), spec['minq']))
    v.coverage = dict(
        evaluations=res.evaluations, distinct_nontrivial=len(trig), rule=RULES[prop],
        samples=res.samples[:3], operations=res.ops, operations_compared=res.compared_ops,
        operations_by_kind=res.ops_by_kind, calls_by_predicted_outcome=res.calls,
        reports_observed_by_kind=res.reports_seen,
        triggers=dict(sorted(res.trig_counts.items())),
        distinct_model_states_reached_estimate=16 * len(res.states),
        scenarios_cut_at_dont_care=res.cuts, cut_reasons=res.cut_reasons,
        mismatches_owned_by_other_properties=res.foreign,
        regression_probes_run=nprobe, calls_on_other_threads_checked=nthreadtrace, scoped_form_scene_lines_compared=nscoped, class_type_value_trace_records_compared=ntracevals, exhaustive=any(k.startswith('exh:') for k in res.by_spec),
        exhaustive_parts={k[4:]: v for k, v in res.by_spec.items() if k.startswith('exh:')},
        random_histories={k[7:]: v for k, v in res.by_spec.items() if k.startswith('random:')},
        exhaustive_note='each listed enumerator was run to completion (every history of its scope, see vlib/exh.py); the random histories are in addition',
        sanitizers='ASan+UBSan+LSan, TROMPELOEIL_SANITY_CHECKS assertions live', scenarios_by_build_configuration=configs_run)
    v.assumptions = ['reference model vlib/model.py encodes the property statements', 'g++ 12, libstdc++, sanitizer runtimes']
    return v.finish()


def replay(prop, path):
    w = json.load(open(path))
    exe, meta = engine.build_driver('asan')
    ops = engine.parse_ops(meta, w['ops'])
    m = model.Model(meta)
    preds, cut = [], None
    for i, op in enumerate(ops):
        pr = m.apply(op)
        preds.append(pr)
        if pr.cut and cut is None:
            cut = i
    res = engine.Result()
    engine.run_batch(prop, exe, meta, [(ops, preds, cut, 0)], res)
    if res.violations:
        for x in res.violations:
            print('  %s: %s' % (x['key'], x['detail'][:600]))
        print('VIOLATION property=%s replay=%s' % (prop, path))
        return 1
    print('replay: no violation of %s on the current tree' % prop)
    return 0
