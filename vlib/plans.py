"""Per-property workloads for the scenario engine: generator profiles, plans (quick /
thorough), the trigger tags that make a scenario non-trivial for the property, and the
minimum number of triggering scenarios below which a run is inconclusive."""
from .gens import profile

PROFILES = {
    'mixed': profile(),
    # C01: many live expectations, lifetimes ending in the middle, moves, few sequences
    'accept': profile(w=dict(exp=16, call=34, rmexp=8, rmobj=2.5, mvobj=2.5, mon=0.5, tr=0.2, rmtr=0.2, rep=0.1, seq=2),
                      p_seq_exp=0.3, nops=(10, 32)),
    # C02: overlapping matchers, many live expectations on few functions
    'overlap': profile(w=dict(obj=2, exp=22, call=36, rmexp=4, rmobj=1, mvobj=1, mon=0.2, tr=0.1, rmtr=0.1, rep=0.1, seq=2.5),
                       kinds=dict(M=8, N=1.5, W=0.5, P=0), max_obj=3, max_exp=9, p_full_mask=0.6, p_with_accept=0.8,
                       p_seq_exp=0.4, fns=['f', 'gi', 'gs', 'v'], nops=(12, 34)),
    # C03: run-time bounds, repeated calls of the same expectation
    'bounds': profile(w=dict(obj=2, exp=12, call=44, rmexp=3, rmobj=1, mvobj=0.5, mon=0.1, tr=0.1, rmtr=0.1, rep=0.1, seq=1.5),
                      kinds=dict(M=8, N=2, W=0.3, P=0), max_obj=2, max_exp=5, p_core=0.75, p_inverted=0.1, p_full_mask=0.7,
                      p_seq_exp=0.3, nops=(12, 36)),
    # C04: lifetime operations dominate
    'lifetime': profile(w=dict(defer=1.0, obj=5, exp=16, call=16, rmexp=12, rmobj=7, mvobj=4, mon=1, tr=0.1, rmtr=0.1, rep=0.1, seq=1.5),
                        kinds=dict(M=7, N=2, W=1.5, P=0.2), p_seq_exp=0.15, nops=(8, 26), p_se_destroy=0.05),
    # C05/C06: sequences everywhere
    'sequence': profile(w=dict(mvseq=1.5, obj=3, seq=5, exp=18, call=36, rmexp=4, rmobj=1.5, mvobj=0.7, mon=3.5, rmseq=1.5, tr=0.1, rmtr=0.1, rep=0.1),
                        kinds=dict(M=6, N=1, W=2, P=2), p_seq_exp=0.9, p_core=0.7, p_full_mask=0.25, max_exp=8, nops=(12, 36)),
    # C07: forbidding expectations stacked with allowing ones
    'forbid': profile(w=dict(obj=2, exp=18, call=38, rmexp=7, rmobj=1, mvobj=0.7, mon=0.1, tr=0.1, rmtr=0.1, rep=0.1, seq=1),
                      kinds=dict(M=8, N=1, W=0.3, P=0), max_obj=2, p_full_mask=0.5, p_seq_exp=0.2, nops=(10, 30), forbid_bias=0.45),
    # C08: clause-rich shapes, throwing side effects, nested calls
    'actions': profile(w=dict(defer=1.2, obj=3, exp=14, call=40, rmexp=3, rmobj=1, mvobj=0.5, mon=0.1, tr=0.3, rmtr=0.3, rep=0.1, seq=1.5, setp=1.5),
                       kinds=dict(M=8, N=1, W=0.3, P=0), p_core=0.25, p_se_throw=0.15, p_se_nested=0.15, p_full_mask=0.7,
                       p_with_accept=0.7, p_seq_exp=0.25, nops=(10, 30), clause_bias=True, p_se_destroy=0.04),
    # C13: watched objects
    'deathwatch': profile(w=dict(obj=8, seq=2, exp=3, call=5, rmexp=10, rmobj=9, mvobj=4, cpobj=3, asobj=4, mon=14, rmseq=0.5, tr=0.1, rmtr=0.1, rep=0.1),
                          kinds=dict(M=1, N=0.2, W=5, P=6), max_obj=4, p_seq_exp=0.5, nops=(8, 26)),
    # C14: hostile orders; stepping into don't-care territory is allowed (only memory safety is checked there)
    'hostile': profile(w=dict(defer=1.0, mvseq=2, obj=5, seq=4, exp=14, call=18, rmexp=7, rmobj=7, mvobj=6, cpobj=1, asobj=1.5, mon=5, rmseq=4, tr=1.5, rmtr=1.5, rep=0.3),
                       kinds=dict(M=6, N=1.5, W=3, P=2), p_seq_exp=0.6, allow_cut=True, hostile_teardown=True, nops=(10, 34), p_se_destroy=0.05),
    # C15: every kind of report
    'reports': profile(w=dict(defer=0.6, mvseq=0.7, exp=14, call=30, rmexp=6, rmobj=4, mvobj=1.5, mon=4, rmseq=1, seq=3),
                       fn_bias=dict(h=3, gs=2), p_with_accept=0.4, p_full_mask=0.2, p_se_destroy=0.03),
    # C16: reporter swaps
    'okrep': profile(w=dict(defer=0.6, exp=14, call=36, rmexp=4, rmobj=1.5, rep=4, mon=0.5, tr=0.2, rmtr=0.2), p_full_mask=0.5, forbid_bias=0.15),
    # C17: tracers
    'tracing': profile(w=dict(defer=0.6, exp=12, call=36, rmexp=3, rmobj=1, tr=6, rmtr=5, rep=0.2, mon=0.3), p_full_mask=0.6, p_se_throw=0.1,
                       p_se_nested=0.12, p_core=0.3, throw_bias=True),
}

# property -> (profile, triggers, min triggering scenarios quick, scenario counts quick / thorough)
SCEN = {
    'C01': dict(profile='accept', trig=['rejected'], minq=200, n=(24000, 900000)),
    'C02': dict(profile='overlap', trig=['multi_candidates'], minq=200, n=(24000, 900000)),
    'C03': dict(profile='bounds', trig=['saturates', 'saturated_nomatch', 'rt_inverted'], minq=200, n=(24000, 900000)),
    'C04': dict(profile='lifetime', trig=['eol_report', 'pending_report', 'eol_silent_shortfall'], minq=200, n=(24000, 900000)),
    'C05': dict(profile='sequence', trig=['seq_blocked', 'skipped_optional', 'destr_out_of_seq'], minq=200, n=(30000, 1200000)),
    'C06': dict(profile='sequence', trig=['seq_teardown_pending', 'skipped_optional', 'seq_blocked'], minq=200, n=(24000, 900000)),
    'C07': dict(profile='forbid', trig=['forbid_hit'], minq=200, n=(24000, 900000)),
    'C08': dict(profile='actions', trig=['se_multi', 'se_throws', 'throws', 'nested_call'], minq=200, n=(24000, 900000)),
    'C13': dict(profile='deathwatch', trig=['mon_death', 'unexpected_death', 'mon_released_alive', 'watch_copy', 'watch_assign_monitored'], minq=200, n=(24000, 900000)),
    'C14': dict(profile='hostile', trig=['move_with_exps', 'call_on_moved'], minq=100, n=(30000, 1000000)),
    'C15': dict(profile='reports', trig=['rejected', 'eol_report', 'pending_report', 'mon_released_alive', 'unexpected_death', 'seq_teardown_pending', 'destr_out_of_seq'], minq=200, n=(24000, 900000),
                extra_profiles=[('hostile', 0.5)]),   # severity (fatal from calls / non-fatal from destructors) is checked even beyond the modelled territory
    'C16': dict(profile='okrep', trig=['accepted'], minq=200, n=(24000, 900000)),
    'C17': dict(profile='tracing', trig=['traced'], minq=200, n=(24000, 900000)),
}
