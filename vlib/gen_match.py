"""C10: scalar matchers and combinators. Seeded random matcher expression trees are emitted
as C++ (real trompeloeil matchers) *and* evaluated by a Python oracle that implements the
mathematical predicate; every tree is applied to every value of its domain (a) through
trompeloeil::param_matches and (b) as the parameter of a real mock call."""
import random, re as pyre, json, os, time
from . import genprog, runner, build

INT_DOM = list(range(-2, 5))
INT_OPS = list(range(-1, 4))
STR_DOM = ['', 'abc', 'ABC', 'xabcx', 'b', 'ab\nabc']
PATTERNS = ['abc', '^abc', 'b$', '^$', 'a.c', '[a-c]+', 'x?abc', '^b']
UC_DOM = [0, 1, 200, 255]            # unsigned char parameter values
UC_OPS = [-1, 0, 200, 255, 256, 300]    # int operands, some outside the parameter type's range
SH_DOM = [-5, 0, 7, 32767]             # short parameter values
SH_OPS = [-40000, -5, 7, 32767, 70000]
NAN = float('nan')
DBL_DOM = [-1.0, 0.0, 1.5, NAN]      # double parameter values: the order is not total (NaN)
DBL_OPS = [0.0, 1.5, NAN]
PTR_DOM = ['null'] + [str(i) for i in range(-1, 4)]   # pointee values
STRUCT_DOM = [(a, b) for a in (0, 1, 2) for b in (0, 1, 2)]


class T:
    """matcher tree node: kind, args; cxx() -> C++ text; ev(x) -> bool"""
    def __init__(self, kind, *args, typed=False, var=None):
        self.kind, self.args, self.typed, self.var = kind, args, typed, var   # var: operand given as a named local that is changed afterwards


REL = {'eq': lambda x, v: x == v, 'ne': lambda x, v: x != v, 'lt': lambda x, v: x < v, 'le': lambda x, v: x <= v,
       'gt': lambda x, v: x > v, 'ge': lambda x, v: x >= v}


def ev(t, x, dom):
    k = t.kind
    if k in REL:
        return REL[k](x, t.args[0])
    if k == 'val':           # plain value used as operand of a set predicate
        return x == t.args[0]
    if k in ('wild', 'any'):
        return True
    if k == 'not':
        return not ev(t.args[0], x, dom)
    if k == 'anyof':
        return any(ev(a, x, dom) for a in t.args)
    if k == 'allof':
        return all(ev(a, x, dom) for a in t.args)
    if k == 'noneof':
        return not any(ev(a, x, dom) for a in t.args)
    if k == 'deref':
        return x is not None and ev(t.args[0], x, 'int')
    if k == 'isnull':
        return x is None
    if k == 'notnull':
        return x is not None
    if k == 'member':
        return ev(t.args[1], x[t.args[0]], 'int')
    if k == 're':
        if x is None:
            return False
        pat, flag = t.args
        if flag == 'notbol' and '^' in pat:
            return False
        if flag == 'noteol' and '$' in pat:
            return False          # ECMAScript without multiline: '$' only ever matches at the very end, which match_not_eol forbids
        if flag == 'cont':
            return pyre.match(pat, x) is not None   # match_continuous: the match has to start at the first character
        return pyre.search(pat, x, pyre.I if flag == 'icase' else 0) is not None
    if k == 'streq':
        return x is not None and x == t.args[0]
    raise ValueError(k)


def cxx(t, dom):
    k = t.kind
    ty = {'int': 'int', 'str': 'std::string'}.get(dom)
    if k in REL:
        if dom == 'dbl':
            opnd = 'std::nan("")' if t.args[0] != t.args[0] else repr(float(t.args[0]))
        else:
            opnd = t.var if t.var else '%d' % t.args[0]
        if t.typed and dom == 'int':
            return 'trompeloeil::%s<int>(%s)' % (k, opnd)
        return 'trompeloeil::%s(%s)' % (k, opnd)
    if k == 'val':
        return '%d' % t.args[0]
    if k == 'wild':
        return 'trompeloeil::_'
    if k == 'any':
        return {'int': 'ANY(int)', 'uc': 'ANY(unsigned char)', 'sh': 'ANY(short)', 'dbl': 'ANY(double)', 'ptr': 'ANY(int*)', 'struct': 'ANY(S const&)', 'str': 'ANY(std::string const&)'}[dom]
    if k == 'not':
        return '!' + cxx(t.args[0], dom)
    if k in ('anyof', 'allof', 'noneof'):
        name = {'anyof': 'any_of', 'allof': 'all_of', 'noneof': 'none_of'}[k]
        tmpl = '<int>' if (t.typed and dom == 'int') else ''
        return 'trompeloeil::%s%s(%s)' % (name, tmpl, ', '.join(cxx(a, dom) for a in t.args))
    if k == 'deref':
        return '*' + cxx(t.args[0], 'int')
    if k == 'isnull':
        return 'trompeloeil::eq(nullptr)'
    if k == 'notnull':
        return 'trompeloeil::ne(nullptr)'
    if k == 'member':
        return 'MEMBER_IS(&S::%s, %s)' % ('ab'[t.args[0]], cxx(t.args[1], 'int'))
    if k == 're':
        pat, flag = t.args
        p = json.dumps(pat)
        if flag == 'icase':
            return 'trompeloeil::re(%s, std::regex_constants::icase)' % p
        if flag == 'notbol':
            return 'trompeloeil::re(%s, std::regex_constants::match_not_bol)' % p
        if flag == 'noteol':
            return 'trompeloeil::re(%s, std::regex_constants::match_not_eol)' % p
        if flag == 'cont':
            return 'trompeloeil::re(%s, std::regex_constants::ECMAScript, std::regex_constants::match_continuous)' % p
        return 'trompeloeil::re(%s)' % p
    if k == 'streq':
        if t.var:
            return 'trompeloeil::eq(%s)' % t.var
        return 'trompeloeil::eq(std::string(%s))' % json.dumps(t.args[0])
    raise ValueError(k)


def assign_vars(t, acc):
    """give every leaf marked var=True a variable name; acc collects (name, ctype, init, changed)"""
    if t.var is True:
        name = 'opv%d' % len(acc)
        if t.kind == 'streq':
            acc.append((name, 'std::string', json.dumps(t.args[0]), '"changed-afterwards"'))
        else:
            acc.append((name, 'int', '%d' % t.args[0], '%d' % (t.args[0] + 40)))
        t.var = name
    for a in t.args:
        if isinstance(a, T):
            assign_vars(a, acc)


def gen_int(rng, depth, allow_val=False, top=False):
    # the bare wildcard _ is not printable and therefore only legal at top level (nested: ANY(int));
    # forms that do not compile are a C19 matter and are not generated
    if depth <= 0 or rng.random() < 0.3:
        r = rng.random()
        if allow_val and r < 0.3:
            return T('val', rng.choice(INT_OPS))
        if r < 0.85:
            return T(rng.choice(list(REL)), rng.choice(INT_OPS), typed=rng.random() < 0.3, var=(True if rng.random() < 0.25 else None))
        return T('wild' if top and rng.random() < 0.5 else 'any')
    r = rng.random()
    if r < 0.3:
        return T('not', gen_int(rng, depth - 1))
    n = rng.randint(1, 4)
    return T(rng.choice(['anyof', 'allof', 'noneof']), *[gen_int(rng, depth - 1, allow_val=True) for _ in range(n)],
             typed=rng.random() < 0.2)


def gen_num(rng, depth, ops):
    """trees over a narrow integral parameter type with int operands (no typed / var variants)"""
    if depth <= 0 or rng.random() < 0.4:
        return T(rng.choice(list(REL)), rng.choice(ops))
    if rng.random() < 0.3:
        return T('not', gen_num(rng, depth - 1, ops))
    return T(rng.choice(['anyof', 'allof', 'noneof']), *[gen_num(rng, depth - 1, ops) for _ in range(rng.randint(1, 3))])


def gen_ptr(rng, depth):
    r = rng.random()
    if depth <= 0 or r < 0.45:
        r2 = rng.random()
        if r2 < 0.7:
            return T('deref', gen_int(rng, max(0, depth - 1)))
        return T(rng.choice(['isnull', 'notnull']))
    if r < 0.7:
        return T('not', gen_ptr(rng, depth - 1))
    return T(rng.choice(['anyof', 'allof', 'noneof']), *[gen_ptr(rng, depth - 1) for _ in range(rng.randint(1, 3))])


def gen_struct(rng, depth):
    r = rng.random()
    if depth <= 0 or r < 0.45:
        return T('member', rng.choice([0, 1]), gen_int(rng, max(0, depth - 1), allow_val=rng.random() < 0.3))
    if r < 0.65:
        return T('not', gen_struct(rng, depth - 1))
    return T(rng.choice(['anyof', 'allof', 'noneof']), *[gen_struct(rng, depth - 1) for _ in range(rng.randint(1, 3))])


def gen_str(rng, depth):
    r = rng.random()
    if depth <= 0 or r < 0.5:
        if rng.random() < 0.8:
            return T('re', rng.choice(PATTERNS), rng.choice(['none', 'none', 'icase', 'notbol', 'noteol', 'cont']))
        return T('streq', rng.choice(STR_DOM[:5]), var=(True if rng.random() < 0.6 else None))
    if r < 0.7:
        return T('not', gen_str(rng, depth - 1))
    return T(rng.choice(['anyof', 'allof', 'noneof']), *[gen_str(rng, depth - 1) for _ in range(rng.randint(1, 3))])


HEADER = '''// generated by vlib/gen_match.py -- do not edit
#include "gen_common.hpp"
#include <memory>
#include <string>
#include <string_view>
#include <cstring>
#include <cmath>
struct S { int a; int b; };
// a user-written handle: constructible from nullptr and comparable with other handles, but with no comparison against
// nullptr_t of its own (u != nullptr goes through the converting constructor)
struct Hdl
{
  int* p = nullptr;
  Hdl() = default;
  Hdl(std::nullptr_t) {}
  explicit Hdl(int* q) : p(q) {}
  int& operator*() const { return *p; }
  friend bool operator==(Hdl const& a, Hdl const& b) { return a.p == b.p; }
  friend bool operator!=(Hdl const& a, Hdl const& b) { return a.p != b.p; }
};
struct MockC
{
  MAKE_MOCK1(fi, void(int));
  MAKE_MOCK1(fp, void(int*));
  MAKE_MOCK1(fup, void(std::unique_ptr<int> const&));
  MAKE_MOCK1(fsp, void(std::shared_ptr<int>));
  MAKE_MOCK1(fh, void(Hdl));
  MAKE_MOCK1(fs, void(S const&));
  MAKE_MOCK1(fstr, void(std::string const&));
  MAKE_MOCK1(fcs, void(char const*));
  MAKE_MOCK1(fsv, void(std::string_view));
  MAKE_MOCK1(fuc, void(unsigned char));
  MAKE_MOCK1(fsh, void(short));
  MAKE_MOCK1(fd, void(double));
};
static int const INT_DOM[] = {-2, -1, 0, 1, 2, 3, 4};
static unsigned char const UC_DOM[] = {0, 1, 200, 255};
static short const SH_DOM[] = {-5, 0, 7, 32767};
static double const DBL_DOM[] = {-1.0, 0.0, 1.5, std::nan("")};
static char const* const STR_DOM[] = {"", "abc", "ABC", "xabcx", "b", "ab\\nabc"};
template <typename F> static int called(F&& f) { G::reports().clear(); try { f(); return 1; } catch (Fatal const&) { return 0; } }
'''


def emit_test(k, t, dom):
    acc = []
    assign_vars(t, acc)
    e = cxx(t, dom)
    decl = ' '.join('%s %s = %s;' % (ct, n, init) for n, ct, init, ch in acc)
    mut = ' '.join('%s = %s;' % (n, ch) for n, ct, init, ch in acc)
    L0 = emit_test_body(k, t, dom, e)
    out = []
    for ln in L0:
        # operands given as named locals are changed right after the matcher / expectation has been created
        ln = ln.replace('{ auto m = %s;' % e, '{ %s auto m = %s; %s' % (decl, e, mut))
        ln = re_sub_allow(ln, e, decl, mut)
        out.append(ln)
    return '\n'.join(out)


def re_sub_allow(ln, e, decl, mut):
    i = ln.find('{ MockC mk; ALLOW_CALL(mk, ')
    if i < 0 or not decl:
        return ln
    j = ln.find(');', ln.find(e, i) + len(e))   # end of the ALLOW_CALL statement
    return ln[:i] + '{ ' + decl + ' MockC mk; ' + ln[i + len('{ MockC mk; '):j + 2] + ' ' + mut + ln[j + 2:]


def emit_test_body(k, t, dom, e):
    L = ['static void test_%d() {' % k]
    if dom == 'int':
        L.append('  { auto m = %s; for (int i = 0; i < 7; ++i) { int x = INT_DOM[i]; G::out("r %d pm %%d %%d", i, trompeloeil::param_matches(m, std::ref(x)) ? 1 : 0); } }' % (e, k))
        L.append('  { MockC mk; ALLOW_CALL(mk, fi(%s)); for (int i = 0; i < 7; ++i) { int x = INT_DOM[i]; G::out("r %d call %%d %%d", i, called([&]{ mk.fi(x); })); } }' % (e, k))
    elif dom in ('uc', 'sh', 'dbl'):
        ct, arr, fnm = ('unsigned char', 'UC_DOM', 'fuc') if dom == 'uc' else ('short', 'SH_DOM', 'fsh') if dom == 'sh' else ('double', 'DBL_DOM', 'fd')
        L.append('  { auto m = %s; for (int i = 0; i < 4; ++i) { %s x = %s[i]; G::out("r %d pm %%d %%d", i, trompeloeil::param_matches(m, std::ref(x)) ? 1 : 0); } }' % (e, ct, arr, k))
        L.append('  { MockC mk; ALLOW_CALL(mk, %s(%s)); for (int i = 0; i < 4; ++i) { %s x = %s[i]; G::out("r %d call %%d %%d", i, called([&]{ mk.%s(x); })); } }' % (fnm, e, ct, arr, k, fnm))
    elif dom == 'ptr':
        L.append('  int vals[] = {-1, 0, 1, 2, 3};')
        L.append('  { auto m = %s; for (int i = 0; i < 6; ++i) { int* x = i ? &vals[i-1] : nullptr; G::out("r %d pm %%d %%d", i, trompeloeil::param_matches(m, std::ref(x)) ? 1 : 0); } }' % (e, k))
        L.append('  { auto m = %s; for (int i = 0; i < 6; ++i) { std::unique_ptr<int> x; if (i) x.reset(new int(vals[i-1])); G::out("r %d pmu %%d %%d", i, trompeloeil::param_matches(m, std::ref(x)) ? 1 : 0); } }' % (e, k))
        L.append('  { auto m = %s; for (int i = 0; i < 6; ++i) { std::shared_ptr<int> x; if (i) x = std::make_shared<int>(vals[i-1]); G::out("r %d pms %%d %%d", i, trompeloeil::param_matches(m, std::ref(x)) ? 1 : 0); } }' % (e, k))
        if not has_kind(t, ('any',)):
            L.append('  { auto m = %s; for (int i = 0; i < 6; ++i) { Hdl x = i ? Hdl(&vals[i-1]) : Hdl(nullptr); G::out("r %d pmh %%d %%d", i, trompeloeil::param_matches(m, std::ref(x)) ? 1 : 0); } }' % (e, k))
            L.append('  { MockC mk; ALLOW_CALL(mk, fh(%s)); for (int i = 0; i < 6; ++i) { Hdl x = i ? Hdl(&vals[i-1]) : Hdl(nullptr); G::out("r %d callh %%d %%d", i, called([&]{ mk.fh(x); })); } }' % (e, k))
        L.append('  { MockC mk; ALLOW_CALL(mk, fp(%s)); for (int i = 0; i < 6; ++i) { int* x = i ? &vals[i-1] : nullptr; G::out("r %d call %%d %%d", i, called([&]{ mk.fp(x); })); } }' % (e, k))
        L.append('  { MockC mk; ALLOW_CALL(mk, fup(%s)); for (int i = 0; i < 6; ++i) { std::unique_ptr<int> x; if (i) x.reset(new int(vals[i-1])); G::out("r %d callu %%d %%d", i, called([&]{ mk.fup(x); })); } }' % (e, k))
        L.append('  { MockC mk; ALLOW_CALL(mk, fsp(%s)); for (int i = 0; i < 6; ++i) { std::shared_ptr<int> x; if (i) x = std::make_shared<int>(vals[i-1]); G::out("r %d calls %%d %%d", i, called([&]{ mk.fsp(x); })); } }' % (e, k))
    elif dom == 'struct':
        L.append('  { auto m = %s; for (int i = 0; i < 9; ++i) { S x{i / 3, i %% 3}; G::out("r %d pm %%d %%d", i, trompeloeil::param_matches(m, std::ref(x)) ? 1 : 0); } }' % (e, k))
        L.append('  { MockC mk; ALLOW_CALL(mk, fs(%s)); for (int i = 0; i < 9; ++i) { S x{i / 3, i %% 3}; G::out("r %d call %%d %%d", i, called([&]{ mk.fs(x); })); } }' % (e, k))
    elif dom == 'str':
        ncs = 7 if strm_ok_for_cstr(t) else 6   # eq(std::string) against a null char const* is the user's UB, not the library's
        L.append('  { auto m = %s; for (int i = 0; i < 6; ++i) { std::string x = STR_DOM[i]; G::out("r %d pm %%d %%d", i, trompeloeil::param_matches(m, std::ref(x)) ? 1 : 0); } }' % (e, k))
        L.append('  { auto m = %s; for (int i = 0; i < %d; ++i) { char const* x = i < 6 ? STR_DOM[i] : nullptr; G::out("r %d pmc %%d %%d", i, trompeloeil::param_matches(m, std::ref(x)) ? 1 : 0); } }' % (e, ncs, k))
        L.append('  { MockC mk; ALLOW_CALL(mk, fstr(%s)); for (int i = 0; i < 6; ++i) { std::string x = STR_DOM[i]; G::out("r %d call %%d %%d", i, called([&]{ mk.fstr(x); })); } }' % (e, k))
        L.append('  { MockC mk; ALLOW_CALL(mk, fcs(%s)); for (int i = 0; i < %d; ++i) { char const* x = i < 6 ? STR_DOM[i] : nullptr; G::out("r %d callc %%d %%d", i, called([&]{ mk.fcs(x); })); } }' % (e, ncs, k))
        if not has_kind(t, ('any',)):
            # a string_view that is a sub-range of a longer buffer (what follows it must not be looked at), and a
            # std::string with an embedded NUL (what follows the NUL is part of the value)
            L.append('  { auto m = %s; for (int i = 0; i < 6; ++i) { std::string buf = std::string(STR_DOM[i]) + "abcb"; std::string_view x(buf.data(), std::strlen(STR_DOM[i])); G::out("r %d pmv %%d %%d", i, trompeloeil::param_matches(m, std::ref(x)) ? 1 : 0); } }' % (e, k))
            L.append('  { MockC mk; ALLOW_CALL(mk, fsv(%s)); for (int i = 0; i < 6; ++i) { std::string buf = std::string(STR_DOM[i]) + "abcb"; std::string_view x(buf.data(), std::strlen(STR_DOM[i])); G::out("r %d callv %%d %%d", i, called([&]{ mk.fsv(x); })); } }' % (e, k))
        L.append('  { MockC mk; ALLOW_CALL(mk, fstr(%s)); for (int i = 0; i < 6; ++i) { std::string x = std::string(STR_DOM[i]) + std::string(1, char(0)) + "abcb"; G::out("r %d calln %%d %%d", i, called([&]{ mk.fstr(x); })); } }' % (e, k))
    L.append('}')
    L.append('static G::Reg reg_%d(%d, &test_%d);' % (k, k, k))
    return L


def domain_values(dom, mode):
    if dom == 'int':
        return INT_DOM
    if dom == 'uc':
        return UC_DOM
    if dom == 'sh':
        return SH_DOM
    if dom == 'dbl':
        return DBL_DOM
    if dom == 'ptr':
        return [None, -1, 0, 1, 2, 3]
    if dom == 'struct':
        return [(i // 3, i % 3) for i in range(9)]
    if dom == 'str':
        if mode == 'calln':
            return [x + '\x00abcb' for x in STR_DOM]
        return STR_DOM + ([None] if mode in ('pmc', 'callc') else [])


def has_kind(t, kinds):
    return t.kind in kinds or any(isinstance(a, T) and has_kind(a, kinds) for a in t.args)


def strm_ok_for_cstr(t):
    """eq(std::string) against a null char const* would construct std::string(nullptr) in user code (operator==): skip"""
    return not has_kind(t, ('streq',))


def plan(tier, seed):
    rng = random.Random(seed * 9176 + 11)
    n = dict(quick=dict(int=60, ptr=20, struct=16, str=16, uc=8, sh=8, dbl=8), thorough=dict(int=700, ptr=300, struct=250, str=250, uc=80, sh=80, dbl=80))[tier]
    trees = []
    # fixed part: every relational matcher x every operand, combinators applied to them (exhaustive over the small domain)
    for rel in REL:
        for v in INT_OPS:
            trees.append(('int', T(rel, v)))
    for rel in ('eq', 'lt'):
        for v in (0, 2):
            base = T(rel, v)
            trees += [('int', T('not', base)), ('int', T('not', T('not', base))), ('int', T('anyof', base, T('val', 3))),
                      ('int', T('noneof', base, T('gt', 2))), ('int', T('not', T('anyof', base, T('gt', 2)))),
                      ('int', T('allof', T('not', base), T('not', T('gt', 2)))), ('ptr', T('deref', base)),
                      ('ptr', T('not', T('deref', base))), ('struct', T('member', 0, base))]
    trees += [('int', T('lt', 2, var=True)), ('int', T('not', T('eq', 1, var=True))), ('int', T('anyof', T('val', 0), T('ge', 3, var=True))),
              ('str', T('streq', 'abc', var=True)), ('str', T('not', T('streq', 'b', var=True))), ('str', T('anyof', T('streq', '', var=True), T('re', '^x', 'none'))),
              ('struct', T('member', 1, T('eq', 2, var=True)))]
    trees += [('int', T('wild')), ('int', T('any')), ('ptr', T('isnull')), ('ptr', T('notnull')), ('ptr', T('deref', T('any')))]
    for pat in PATTERNS:
        for flag in ('none', 'icase', 'notbol', 'noteol', 'cont'):
            trees.append(('str', T('re', pat, flag)))
    fixed = len(trees)
    gens = {'int': gen_int, 'ptr': gen_ptr, 'struct': gen_struct, 'str': gen_str,
            'uc': lambda r, d: gen_num(r, min(d, 2), UC_OPS), 'sh': lambda r, d: gen_num(r, min(d, 2), SH_OPS),
            'dbl': lambda r, d: gen_num(r, min(d, 2), DBL_OPS)}
    for rel in REL:
        for v in (UC_OPS[0], UC_OPS[-2], UC_OPS[-1]):
            trees.append(('uc', T(rel, v)))
        for v in (SH_OPS[0], SH_OPS[-1]):
            trees.append(('sh', T(rel, v)))
        for v in DBL_OPS:
            trees.append(('dbl', T(rel, v)))
            trees.append(('dbl', T('not', T(rel, v))))
    for dom, cnt in n.items():
        for _ in range(cnt):
            trees.append((dom, gens[dom](rng, 3)))
    return trees, fixed


NAMED = r'''
// a named matcher (lvalue) is composed into !m / *m / any_of(...) and then used again: composition must copy it
static void test_9500() {
  std::string s1 = "abc", s2 = "zz"; std::string* ps = &s1; int i3 = 3; int* pi = &i3;
  auto named = trompeloeil::eq(std::string("abc"));
  auto d = *named;
  G::out("n 0 %d", trompeloeil::param_matches(d, std::ref(ps)) ? 1 : 0);
  G::out("n 1 %d", trompeloeil::param_matches(named, std::ref(s1)) ? 1 : 0);
  auto neg = !named;
  G::out("n 2 %d", trompeloeil::param_matches(neg, std::ref(s1)) ? 1 : 0);
  G::out("n 3 %d", trompeloeil::param_matches(named, std::ref(s1)) ? 1 : 0);
  auto any = trompeloeil::any_of(named, trompeloeil::eq(std::string("zz")));
  G::out("n 4 %d", trompeloeil::param_matches(any, std::ref(s2)) ? 1 : 0);
  G::out("n 5 %d", trompeloeil::param_matches(named, std::ref(s1)) ? 1 : 0);
  auto d2 = *named;
  G::out("n 6 %d", trompeloeil::param_matches(d2, std::ref(ps)) ? 1 : 0);
  auto ni = trompeloeil::gt(2);
  auto di = *ni; auto ai = trompeloeil::all_of(ni, trompeloeil::lt(5)); auto nni = !ni;
  G::out("n 7 %d", trompeloeil::param_matches(di, std::ref(pi)) ? 1 : 0);
  G::out("n 8 %d", trompeloeil::param_matches(ai, std::ref(i3)) ? 1 : 0);
  G::out("n 9 %d", trompeloeil::param_matches(nni, std::ref(i3)) ? 1 : 0);
  G::out("n 10 %d", trompeloeil::param_matches(ni, std::ref(i3)) ? 1 : 0);
  MockC mk;
  ALLOW_CALL(mk, fstr(named));
  G::out("n 11 %d", called([&]{ mk.fstr(s1); }));
  G::out("n 12 %d", called([&]{ mk.fstr(s2); }));
}
static G::Reg reg_9500(9500, &test_9500);
// *m judges the pointee itself (a derived object behind a base-class pointer is not sliced); MEMBER_IS looks at the member
// whatever the object as a whole compares equal to
struct Shape { virtual ~Shape() = default; virtual int corners() const { return 0; } };
struct Tri : Shape { int corners() const override { return 3; } };
static auto has_corners(int n)
{
  return trompeloeil::make_matcher<trompeloeil::wildcard>(
    [](Shape const& s, int k) { return s.corners() == k; },
    [](std::ostream& os, int k) { os << " with " << k << " corners"; }, n);
}
struct Span { int const* p; int len; bool operator==(std::nullptr_t) const { return p == nullptr; } bool operator!=(std::nullptr_t) const { return p != nullptr; } };
static void test_9501() {
  Tri tri; Shape plain;
  Shape* pt = &tri; Shape* pp = &plain; Shape* pn = nullptr;
  std::unique_ptr<Shape> ut(new Tri);
  G::out("n 20 %d", trompeloeil::param_matches(*has_corners(3), std::ref(pt)) ? 1 : 0);
  G::out("n 21 %d", trompeloeil::param_matches(*has_corners(3), std::ref(pp)) ? 1 : 0);
  G::out("n 22 %d", trompeloeil::param_matches(*has_corners(3), std::ref(pn)) ? 1 : 0);
  G::out("n 23 %d", trompeloeil::param_matches(*has_corners(3), std::ref(ut)) ? 1 : 0);
  G::out("n 24 %d", trompeloeil::param_matches(!*has_corners(3), std::ref(pt)) ? 1 : 0);
  G::out("n 25 %d", trompeloeil::param_matches(*trompeloeil::any_of(has_corners(4), has_corners(3)), std::ref(pt)) ? 1 : 0);
  Span empty{nullptr, 0}; int one = 1; Span full{&one, 1};
  G::out("n 26 %d", trompeloeil::param_matches(MEMBER_IS(&Span::len, trompeloeil::eq(0)), std::ref(empty)) ? 1 : 0);
  G::out("n 27 %d", trompeloeil::param_matches(MEMBER_IS(&Span::len, trompeloeil::eq(1)), std::ref(empty)) ? 1 : 0);
  G::out("n 28 %d", trompeloeil::param_matches(MEMBER_IS(&Span::len, trompeloeil::eq(1)), std::ref(full)) ? 1 : 0);
  G::out("n 29 %d", trompeloeil::param_matches(!MEMBER_IS(&Span::len, trompeloeil::gt(0)), std::ref(empty)) ? 1 : 0);
  G::out("n 30 %d", trompeloeil::param_matches(trompeloeil::all_of(MEMBER_IS(&Span::len, trompeloeil::lt(1)), MEMBER_IS(&Span::p, trompeloeil::eq(nullptr))), std::ref(empty)) ? 1 : 0);
}
static G::Reg reg_9501(9501, &test_9501);
'''
NAMED_EXPECT = [1, 1, 0, 1, 1, 1, 1, 1, 1, 0, 1, 1, 0]
NAMED_EXPECT2 = {20: 1, 21: 0, 22: 0, 23: 1, 24: 0, 25: 1, 26: 1, 27: 0, 28: 1, 29: 1, 30: 1}


def run(prop, tier, seed):
    v = runner.Verdict(prop, tier, seed)
    trees, fixed = plan(tier, seed)
    per = 6 if tier == 'quick' else 8
    files = {}
    for i in range(0, len(trees), per):
        body = [HEADER]
        for k in range(i, min(i + per, len(trees))):
            dom, t = trees[k]
            body.append(emit_test(k, t, dom))
        files['match_%03d.cpp' % (i // per)] = '\n'.join(body) + '\n'
    files['match_named.cpp'] = HEADER + NAMED
    try:
        exe, bdir = genprog.build_program('gen_match', files)
    except build.BuildError as ex:
        v.inconclusive.append('generated matcher program does not build: %s' % str(ex)[-2500:])
        return v.finish()
    rc, out, err, to = genprog.run_program(exe)
    results = {}
    named_got = {}
    cur = None
    done = set()
    for ln in out.split('\n'):
        t = ln.split()
        if not t:
            continue
        if t[0] == 'n':
            named_got[int(t[1])] = int(t[2])
        elif t[0] == 'r':
            results.setdefault(int(t[1]), []).append((t[2], int(t[3]), int(t[4])))
        elif t[0] == 'TEST':
            cur = int(t[1])
        elif t[0] == 'DONE':
            done.add(int(t[1]))
    if rc != 0 or to:
        k = cur
        dom, t = trees[k] if k is not None else (None, None)
        from . import engine
        v.violation('crash|' + engine.crash_signature(rc, err), 'program died in test %s (%s): %s' % (k, cxx(t, dom) if t else '?', err[:2500]),
                    dict(engine='gen_match', tree=cxx(t, dom) if t else None, domain=dom, stderr=err[:4000]))
    comparisons = 0
    nontriv = set()
    samples = []
    for k, (dom, t) in enumerate(trees):
        if k not in done:
            continue
        expr = cxx(t, dom)
        accepts = set()
        for mode, i, got in results.get(k, []):
            vals = domain_values(dom, mode)
            x = vals[i]
            if dom == 'str' and x is None and not strm_ok_for_cstr(t):
                continue
            want = ev(t, x, dom)
            comparisons += 1
            accepts.add(want)
            if bool(got) != want:
                v.violation('mismatch|%s|%s' % (dom, mode), '%s applied to %r (%s): library says %s, predicate says %s' % (expr, x, mode, bool(got), want),
                            dict(engine='gen_match', tree=expr, domain=dom, value=repr(x), mode=mode, expected=want, observed=bool(got)))
        if len(accepts) == 2:
            nontriv.add(expr)
        if len(samples) < 4 and k >= fixed:
            samples.append(dict(tree=expr, domain=dom, truth_table={repr(x): ev(t, x, dom) for x in domain_values(dom, 'pm')}))
    if 9500 in done:
        for i, want in enumerate(NAMED_EXPECT):
            comparisons += 1
            if named_got.get(i) != want:
                v.violation('mismatch|named-reuse', 'named matcher reused after composition: check %d gives %s, expected %s (see NAMED in vlib/gen_match.py)' % (i, named_got.get(i), want),
                            dict(engine='gen_match', scene='named matcher composed and reused', got=named_got))
    if 9501 in done:
        for i, want in sorted(NAMED_EXPECT2.items()):
            comparisons += 1
            if named_got.get(i) != want:
                v.violation('mismatch|pointee-or-member', 'derived pointee under *m / MEMBER_IS on a null-comparable object: check %d gives %s, expected %s (see test_9501 in vlib/gen_match.py)' % (i, named_got.get(i), want),
                            dict(engine='gen_match', scene='test_9501', got=named_got))
    if len(done - {9500, 9501}) < len(trees) and not (rc != 0 or to):
        v.inconclusive.append('only %d of %d tests ran' % (len(done), len(trees)))
    v.coverage = dict(evaluations=comparisons, distinct_nontrivial=len(nontriv),
                      rule='one evaluation = one (matcher tree, value, application mode) comparison of the real matcher with the mathematical predicate; modes: param_matches on int / int* / unique_ptr / shared_ptr / a user-written handle type / struct / std::string / char const* (incl. null) / string_view sub-range of a longer buffer / std::string with an embedded NUL and as the parameter of a real mock call (accepted vs no-match report); distinct non-trivial = distinct tree that accepts some and rejects some values of its domain',
                      samples=samples, trees=len(trees), fixed_trees=fixed, random_trees=len(trees) - fixed,
                      by_domain={d: sum(1 for x in trees if x[0] == d) for d in ('int', 'uc', 'sh', 'dbl', 'ptr', 'struct', 'str')},
                      exhaustive=False)
    v.assumptions = ['Python oracle gen_match.ev implements the mathematical predicates', 'ASan/UBSan catch a null dereference in *m / re directly']
    return v.finish()
