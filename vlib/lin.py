"""Offline linearizability check of one recorded concurrent history against the sequential
reference model (Wing-Gong search with memoisation on (positions, model state)).

Every operation has an interval [call, return] from one relaxed-atomic clock and its
complete recorded result. Creating a sequenced expectation / requirement is a compound
operation: registration in each of its sequences, a later bound change, becoming callable
are separate atomic steps that must each fall inside the operation's interval, in order.
A search that exceeds its node budget is *inconclusive*, never a violation."""
from . import model, oracle


def expand(op, meta_shapes):
    """atomic steps of an operation"""
    k = op[0]
    if k == 'exp':
        _, e, shape, slot, o, p = op
        s = meta_shapes[shape]
        if s['nq'] == 0:
            return [op]
        lim_known = s['lim_first'] or s['lim'] in ('none', 'allow', 'forbid')
        if s['rt']:
            L = p.get('lo', 1)
            H = p.get('hi', 1) if s['lim'] == 'rt' else L
            if lim_known and H != -1 and L > H:
                return [op]          # RT_TIMES throws before IN_SEQUENCE was evaluated: atomic failure
        steps = [('exp_reg', e, shape, slot, o, p, i, lim_known) for i in range(s['nq'])]
        if not lim_known:
            steps.append(('exp_lim', e))
        steps.append(('exp_hook', e))
        return steps
    if k == 'qexp':
        # is_satisfied() and is_saturated() are two library operations, issued in this order
        return [('qexp_sat', op[1]), ('qexp_satu', op[1])]
    if k == 'mon':
        seqs = op[4:]
        if not seqs:
            return [op]
        steps = [('mon_attach',) + tuple(op[1:])]
        for i in range(len(seqs)):
            steps.append(('mon_reg', op[1], i, i == len(seqs) - 1))
        return steps
    return [op]


class StaticReg:
    """registry of static expectation info built from the programs (order independent)"""
    def __init__(self, meta, allops):
        self.info = {}
        shapes = {s['id']: s for s in meta['shapes']}
        sites = {s['site']: s for s in meta['mon_sites']}
        for op in allops:
            if op[0] == 'exp':
                s = shapes[op[2]]
                sl = s['slots'][op[3]]
                self.info[op[1]] = dict(file=sl['file'], line=sl['line'], text=sl['text'], shape=s, p=dict(op[5]), mon=False, site=None, fn=s['fn'])
            elif op[0] == 'mon':
                st = sites[op[2]]
                self.info[op[1]] = dict(file=st['file'], line=st['line'], text=st['text'], shape=None, p={}, mon=True, site=st, fn=None)


def check(meta, t, rec, budget=20000):
    shapes = {s['id']: s for s in meta['shapes']}
    progs = [t.pre] + list(t.threads) + [t.post]
    recs = [rec['pre']] + list(rec['threads']) + [rec['post']]
    for ops, rs in zip(progs, recs):
        if len(ops) != len(rs):
            return dict(verdict='violation', why='short-history', detail='recorded %d operations for a program of %d' % (len(rs), len(ops)), nodes=0)
    reg = StaticReg(meta, [op for ops in progs for op in ops])
    # threads: list of steps (op index, step, is_last, call, ret, obs, op)
    threads = []
    for ops, rs in zip(progs, recs):
        st = []
        for i, (op, (a, b, ob)) in enumerate(zip(ops, rs)):
            ex = expand(op, shapes)
            for j, s in enumerate(ex):
                st.append((i, s, j == len(ex) - 1, a, b, ob, op))
        threads.append(st)
    n = len(threads)
    start = model.Model(meta)
    seen = set()
    nodes = [0]
    best = [None]
    order = []

    def cur_op_ret(ti, pos):
        return threads[ti][pos][4]

    def search(m, pos):
        if all(pos[i] >= len(threads[i]) for i in range(n)):
            return True
        key = (tuple(pos), m.key())
        if key in seen:
            return False
        seen.add(key)
        nodes[0] += 1
        if nodes[0] > budget:
            raise TimeoutError
        cands = []
        for i in range(n):
            if pos[i] >= len(threads[i]):
                continue
            step = threads[i][pos[i]]
            call = step[3]
            ok = True
            for j in range(n):
                if j != i and pos[j] < len(threads[j]) and threads[j][pos[j]][4] < call:
                    ok = False
                    break
            if ok:
                cands.append((step[4], i))
        cands.sort()
        for _, i in cands:
            opi, s, last, a, b, ob, op = threads[i][pos[i]]
            if s[0] in ('qexp_sat', 'qexp_satu'):
                # read-only step: compare one component of the recorded answer with the model's flag
                x = m.exps.get(s[1])
                got = ob.q.get(s[1])
                if x is None or got is None:
                    continue
                want = x.sat() if s[0] == 'qexp_sat' else x.satu()
                if got[0 if s[0] == 'qexp_sat' else 1] != want:
                    if best[0] is None or sum(pos) >= best[0][0]:
                        best[0] = (sum(pos), i, opi, op, ['%s of expectation %d recorded %s, model %s' % ('is_satisfied' if s[0] == 'qexp_sat' else 'is_saturated', s[1], got, want)])
                    continue
                pos2 = list(pos); pos2[i] += 1
                order.append((i, opi))
                if search(m, pos2):
                    return True
                order.pop()
                continue
            m2 = m.clone()
            try:
                pr = m2.apply(s)
            except (KeyError, ValueError, AssertionError):
                continue
            if last:
                # compound creation: the observable is the creation result of the whole statement
                if s[0] in ('exp_hook', 'mon_reg', 'exp_lim'):
                    if s[0] == 'exp_lim' and pr.create is None:
                        pr.create = None
                mm = oracle.compare(pr, ob, reg, op[0] == 'call')
                mm = [x for x in mm if x.aspect not in ('trace',)]
                if mm:
                    if best[0] is None or sum(pos) >= best[0][0]:
                        best[0] = (sum(pos), i, opi, op, [repr(x) for x in mm[:3]])
                    continue
            else:
                if s[0] == 'exp_lim' and pr.create == 'logic':
                    # the statement ends here with std::logic_error: skip the remaining steps of this operation
                    mm = oracle.compare(pr, ob, reg, False)
                    if mm:
                        continue
                    k = pos[i] + 1
                    while k < len(threads[i]) and threads[i][k][0] == opi:
                        k += 1
                    pos2 = list(pos); pos2[i] = k
                    order.append((i, opi))
                    if search(m2, pos2):
                        return True
                    order.pop()
                    continue
            pos2 = list(pos); pos2[i] += 1
            order.append((i, opi))
            if search(m2, pos2):
                return True
            order.pop()
        return False

    try:
        ok = search(start, [0] * n)
    except TimeoutError:
        return dict(verdict='budget', nodes=nodes[0])
    except RecursionError:
        return dict(verdict='budget', nodes=nodes[0])
    if ok:
        return dict(verdict='ok', nodes=nodes[0])
    b = best[0]
    hist = []
    for ti, (ops, rs) in enumerate(zip(progs, recs)):
        for op, (a, c, ob) in zip(ops, rs):
            hist.append(dict(thread=ti, call=a, ret=c, op=model.op_to_line(op), outcome=ob.outcome, create=ob.create,
                             q={str(k): v for k, v in ob.q.items()}, qs={str(k): v for k, v in ob.qs.items()},
                             reports=[(r[1], r[4][:120]) for r in ob.reports], ok=ob.ok))
    detail = 'no order of the recorded operations consistent with program order and real-time precedence reproduces the recorded results under the sequential model'
    if b:
        detail += '; deepest failure: thread %d op %d %s: %s' % (b[1], b[2], model.op_to_line(b[3]), b[4])
    return dict(verdict='violation', why='no-order', detail=detail, history=hist, nodes=nodes[0])
