"""Pre-build the remaining drivers (best effort; checks rebuild on their own)."""
def main():
    try:
        from . import thr
        exe, _ = thr.build_thr('tsan')
        print('built', exe)
    except Exception as ex:
        print('setup: threaded driver not pre-built:', str(ex)[-500:])
    return 0
