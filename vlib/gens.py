"""Scenario generators: seeded random histories (biased per property by a profile) and
exhaustive small-scope enumerators. A scenario is a list of ops (tuples, see model.py)."""
import random, itertools
from .model import Model

ARGS = [0, 1, 2, 3]

DEFAULT_PROFILE = dict(
    nops=(8, 28),
    w=dict(obj=4, seq=3, exp=14, call=30, rmexp=5, rmobj=2, mvobj=1.5, cpobj=0.3, asobj=0.4, mon=2.5, rmseq=0.7, mvseq=0.0, defer=0.0,
           tr=0.7, rmtr=0.7, rep=0.5, setp=0.3),
    kinds=dict(M=6, N=1.5, W=2, P=1.5),
    max_obj=4, max_seq=3, max_exp=8,
    p_seq_exp=0.45,          # probability that a new expectation is sequenced (if sequences exist)
    p_core=0.5,              # probability to draw from the core (run-time bounds, set matcher) shapes
    p_inverted=0.03,
    p_se_throw=0.08, p_se_nested=0.06, p_se_destroy=0.0,
    p_full_mask=0.35, p_with_accept=0.6,
    allow_cut=False,         # may the generator step into don't-care territory (only memory safety checked after)
    autoq=True,
    fns=None,                # restrict functions
    hostile_teardown=False,
    two_monitors=False,
)


def profile(**over):
    p = dict(DEFAULT_PROFILE)
    p['w'] = dict(DEFAULT_PROFILE['w'])
    p['kinds'] = dict(DEFAULT_PROFILE['kinds'])
    for k, v in over.items():
        if k in ('w', 'kinds'):
            p[k].update(v)
        else:
            p[k] = v
    return p


def wchoice(rng, d):
    items = [(k, w) for k, w in d.items() if w > 0]
    tot = sum(w for _, w in items)
    x = rng.random() * tot
    for k, w in items:
        x -= w
        if x <= 0:
            return k
    return items[-1][0]


class RandomGen:
    def __init__(self, meta, prof):
        self.meta = meta
        self.prof = prof
        self.shapes = meta['shapes']
        self.by_cls = {'M': [s for s in self.shapes if s['cls'] == 'M'], 'N': [s for s in self.shapes if s['cls'] == 'N']}
        self.core = {'M': [s for s in self.by_cls['M'] if s['core']], 'N': [s for s in self.by_cls['N'] if s['core']]}
        if prof.get('fns'):
            for c in 'MN':
                self.by_cls[c] = [s for s in self.by_cls[c] if s['fn'] in prof['fns']]
                self.core[c] = [s for s in self.core[c] if s['fn'] in prof['fns']]
        self.sites = meta['mon_sites']
        self.weight = {s['id']: self.shape_weight(s) for s in self.shapes}

    def shape_weight(self, s):
        pf = self.prof
        w = 1.0
        if pf.get('clause_bias'):
            w *= 1 + s['nw'] + 1.5 * s['ns']
        if pf.get('fn_bias'):
            w *= pf['fn_bias'].get(s['fn'], 1)
        if pf.get('throw_bias'):
            if s['act'] in ('tstd', 'tint'):
                w *= 3
            if s['fn'] in ('v', 'r'):
                w *= 2
        return w

    def scenario(self, rng):
        """returns (ops, preds, cut_index or None)"""
        pf = self.prof
        m = Model(self.meta)
        ops, preds = [], []
        nid = [1]
        live_slots = set()      # (shape, slot) of live expectations
        live_sites = set()
        exp_slot = {}
        cut_at = [None]

        def fresh():
            nid[0] += 1
            return nid[0]

        def emit(op):
            pr = m.apply(op)
            if op[0] in ('call', 'callx', 'callu'):
                # expectations that came or went inside the call (deferred operations of side effects)
                reserved = {d[1] for d in m.deferred.values() if d[0] == 'exp'}
                for eid in [x for x in exp_slot if x not in m.exps and x not in reserved]:
                    k = exp_slot.pop(eid)
                    if k[0] == 'site':
                        live_sites.discard(k[1])
                    else:
                        live_slots.discard(k)
            ops.append(op)
            preds.append(pr)
            if pr.cut and cut_at[0] is None:
                cut_at[0] = len(ops) - 1
            return pr

        def mock_objs():
            return [o for o in m.objs.values() if o.kind in 'MNW']

        def nest_targets():
            return {e.p['nobj'] for e in m.exps.values() if not e.is_mon and any(e.p.get('se%d' % i) in (2, 3, 5) for i in range(3))}

        def doomed():
            return {e.p['nobj'] for e in m.exps.values() if not e.is_mon and any(e.p.get('se%d' % i) == 5 for i in range(3))}

        def nested_into():
            return {e.p['nobj'] for e in m.exps.values() if not e.is_mon and any(e.p.get('se%d' % i) in (2, 3) for i in range(3))}

        def would_cut_rmseq(s):
            return False   # behaviour after a sequence object died is modelled (passed stays passed, pending becomes unconstrained)

        def would_cut_rmobj(o):
            ob = m.objs[o]
            for fl in ob.funcs.values():
                for eid in fl['active'] + fl['saturated']:
                    x = m.exps[eid]
                    if any(x.reg.get(s) for s in x.seqs):
                        return True
            return False

        def gen_exp(force_dop=None, plain=False):
            objs = mock_objs()
            if not objs or sum(1 for e in m.exps.values() if not e.is_mon) >= pf['max_exp']:
                return None
            ob = rng.choice(objs)
            cls = 'N' if ob.kind == 'N' else 'M'
            pool = self.core[cls] if rng.random() < pf['p_core'] and self.core[cls] else self.by_cls[cls]
            want_seq = bool(m.seqs) and rng.random() < pf['p_seq_exp']
            cands = [s for s in pool if (s['nq'] > 0) == want_seq and s['nq'] <= len(m.seqs)]
            if not cands:
                cands = [s for s in pool if s['nq'] <= len(m.seqs)]
            if not cands:
                return None
            fb = pf.get('forbid_bias', 0)
            if fb and rng.random() < fb:
                fc = [s for s in pool + self.by_cls[cls] if s['lim'] in ('forbid', 't0')]
                if fc:
                    cands = fc
            ws = [self.weight[s['id']] for s in cands]
            for _ in range(6):
                s = rng.choices(cands, ws)[0]
                free = [sl['slot'] for sl in s['slots'] if (s['id'], sl['slot']) not in live_slots]
                if free:
                    break
            else:
                return None
            slot = rng.choice(free)
            p = {}
            full = rng.random() < pf['p_full_mask']
            p['mask'] = 15 if full else rng.randrange(1, 16)
            p['val'] = rng.choice(ARGS)
            if s['fn'] == 'h':
                p['mask2'] = 15 if rng.random() < 0.5 else rng.randrange(1, 16)
                p['val2'] = rng.choice(ARGS)
            for i in range(s['nw']):
                p['w%d' % i] = 15 if rng.random() < pf['p_with_accept'] else rng.randrange(0, 16)
            if force_dop is not None and (s['ns'] == 0 or s['fn'] in ('v', 'r')):
                return None
            dop_at = rng.randrange(s['ns']) if force_dop is not None else -1
            for i in range(s['ns']):
                r = rng.random()
                if plain:
                    continue
                if i == dop_at:
                    p['se%d' % i] = 6        # this side effect carries out the deferred operation (releases / creates an expectation)
                    p['dop'] = force_dop
                    continue
                if force_dop is not None:
                    if r < pf['p_se_throw']:
                        p['se%d' % i] = 1
                    continue
                if r > 1 - pf['p_se_nested'] and s['fn'] not in ('gs', 'r') and 'nobj' not in p:
                    # conditional recursion (nested v(arg-1) while arg>0): may target the expectation's own object,
                    # for an expectation on v that is genuine recursion into the same mock function
                    tg = [o for o in mock_objs() if o.kind != 'N' and o.id not in doomed()]
                    if tg:
                        own = [o for o in tg if o.id == ob.id]
                        p['se%d' % i] = 3
                        p['nobj'] = (own[0] if own and rng.random() < 0.6 else rng.choice(tg)).id
                        if s['fn'] == 'f' and rng.random() < 0.6:
                            p['nfn'] = 1     # recursion through the value-returning function itself: f(arg) calls f(arg-1)
                        continue
                if s['fn'] == 'r' and rng.random() < 0.4:
                    p['se%d' % i] = 4        # write through the in/out parameter
                    continue
                if pf['p_se_destroy'] and rng.random() < pf['p_se_destroy'] and s['fn'] != 'r' and 'nobj' not in p and ob.id not in nested_into():
                    p['se%d' % i] = 5        # this side effect destroys the mock object the call is made on
                    p['nobj'] = ob.id
                    continue
                if r < pf['p_se_throw']:
                    p['se%d' % i] = 1
                elif r < pf['p_se_throw'] + pf['p_se_nested']:
                    tg = [o for o in mock_objs() if o.id != ob.id and o.kind != 'N' and o.id not in doomed()]
                    # the nested target function is always v: an expectation on v never nests itself (no call cycles)
                    if tg and s['fn'] not in ('v', 'r') and 'nobj' not in p:
                        p['se%d' % i] = 2
                        p['nobj'] = rng.choice(tg).id
                        p['narg'] = rng.choice(ARGS)
            if s['rt']:
                lo = rng.choice([0, 0, 1, 1, 1, 2, 3]) if rng.random() < 0.93 else rng.choice([4, 5, 6])
                r = rng.random()
                if s['lim'] == 'rt':
                    if r < pf['p_inverted'] and lo > 0:
                        hi = rng.randrange(0, lo)
                    elif r < 0.2:
                        hi = -1
                    else:
                        hi = lo + rng.choice([0, 0, 1, 1, 2])
                    if lo == 0 and hi == 0 and (s['nq'] or rng.random() < 0.7):
                        hi = 1
                    p['hi'] = hi
                else:
                    if lo == 0:
                        lo = 1
                p['lo'] = lo
            if s['nq']:
                ss = rng.sample(sorted(m.seqs), s['nq'])
                for i, sid in enumerate(ss):
                    p['s%d' % i] = sid
            if s['act'] == 'retref':
                p['slot'] = rng.randrange(8)
            e = fresh()
            live_slots.add((s['id'], slot))
            exp_slot[e] = (s['id'], slot)
            return ('exp', e, s['id'], slot, ob.id, p)

        def gen_call():
            objs = mock_objs()
            if not objs:
                return None
            withexp = [o for o in objs if any(fl['active'] for fl in o.funcs.values())]
            if not withexp and rng.random() < 0.85:
                return None
            ob = rng.choice(withexp) if withexp and rng.random() < 0.93 else rng.choice(objs)
            fns = [fn for fn, fl in ob.funcs.items() if fl['active']] or [fn for fn, fl in ob.funcs.items() if fl['saturated']]
            if not fns and rng.random() < 0.8:
                return None
            if fns and rng.random() < 0.95:
                fn = rng.choice(fns)
            else:
                fn = rng.choice(['f', 'v'] if ob.kind == 'N' else ['f', 'v', 'gi', 'gs', 'h', 'r', 'c'])
            if pf.get('fns') and fn not in pf['fns']:
                fn = rng.choice(pf['fns'])
                if ob.kind == 'N' and fn not in ('f', 'v'):
                    return None
            a, b = rng.choice(ARGS), rng.choice(ARGS)
            fl = ob.funcs.get(fn)
            if fl and fl['active'] and rng.random() < pf.get('p_aim', 0.8):
                # aim at one live expectation: pick arguments it accepts
                e = m.exps[rng.choice(fl['active'])]
                ok = [(x, y) for x in ARGS for y in (ARGS if fn == 'h' else [0])
                      if m.params_match(e, (x, y)) and m.withs_match(e, (x, y))[0]]
                if ok:
                    a, b = rng.choice(ok)
            kind = 'callx' if rng.random() < 0.08 else 'call'
            if fn == 'h':
                return (kind, ob.id, fn, a, b)
            return (kind, ob.id, fn, a)

        def gen_one(kind):
            if kind == 'obj':
                if len(m.objs) >= pf['max_obj']:
                    return None
                return ('obj', fresh(), wchoice(rng, pf['kinds']))
            if kind == 'seq':
                if len(m.seqs) >= pf['max_seq']:
                    return None
                return ('seq', fresh())
            if kind == 'exp':
                return gen_exp()
            if kind == 'call':
                c = gen_call()
                if c is not None and c[0] == 'call' and rng.random() < 0.07:
                    # the same call from a destructor during stack unwinding - if it is accepted and returns normally
                    cu = ('callu',) + c[1:]
                    m2 = m.clone()
                    m2.apply(cu)
                    if not m2.illegal:
                        return cu
                if c is not None and m.deferred:
                    m2 = m.clone()
                    m2.apply(c)
                    if m2.illegal:
                        return None
                return c
            if kind == 'rmexp':
                if not m.exps:
                    return None
                e = rng.choice(sorted(m.exps))
                r = rng.random()
                return ('rmexpx' if r < 0.12 else 'rmexpc' if r < 0.2 else 'rmexp', e)
            if kind == 'rmobj':
                c = [o for o in m.objs if o not in nest_targets()]
                if not pf['allow_cut']:
                    c = [o for o in c if not would_cut_rmobj(o)]
                if not c:
                    return None
                r = rng.random()
                return ('rmobjx' if r < 0.1 else 'rmobjc' if r < 0.17 else 'rmobj', rng.choice(c))
            if kind == 'mvobj':
                c = [o.id for o in m.objs.values() if o.kind in 'MWP']
                if not c or len(m.objs) >= pf['max_obj'] + 1:
                    return None
                return ('mvobj', fresh(), rng.choice(c))
            if kind == 'cpobj':
                c = [o.id for o in m.objs.values() if o.kind == 'P']
                if not c or len(m.objs) >= pf['max_obj'] + 1:
                    return None
                return (rng.choice(['cpobj', 'cpobjc']), fresh(), rng.choice(c))
            if kind == 'asobj':
                c = [o.id for o in m.objs.values() if o.kind == 'P']
                if len(c) < 2:
                    return None
                a, b = rng.sample(c, 2)
                return (rng.choice(['asobj', 'asmv']), a, b)
            if kind == 'mon':
                c = [o for o in m.objs.values() if o.kind in 'WP' and (pf['two_monitors'] or not o.mons)]
                if not c:
                    return None
                ob = rng.choice(c)
                nseq = 0
                if m.seqs and rng.random() < 0.5:
                    nseq = rng.choice([1, 1, 2]) if len(m.seqs) >= 2 else 1
                sites = [s for s in self.sites if s['cls'] == ob.kind and s['nseq'] == nseq and s['site'] not in live_sites]
                if not sites:
                    return None
                st = rng.choice(sites)
                e = fresh()
                live_sites.add(st['site'])
                exp_slot[e] = ('site', st['site'])
                return ('mon', e, st['site'], ob.id) + tuple(rng.sample(sorted(m.seqs), nseq))
            if kind == 'rmseq':
                c = [s for s in m.seqs if pf['allow_cut'] or not would_cut_rmseq(s)]
                if not c:
                    return None
                return ('rmseq', rng.choice(c))
            if kind == 'defer':
                # an operation that a side effect of a new expectation will carry out: release another expectation,
                # or create one
                if len(m.deferred) >= 2:
                    return None
                k = fresh()
                if m.exps and rng.random() < 0.55:
                    inner = ('rmexp', rng.choice(sorted(m.exps)))
                else:
                    inner = gen_exp(plain=True)
                    if inner is None:
                        return None
                    if inner[5].get('hi', 1) != -1 and inner[5].get('lo', 1) > inner[5].get('hi', 1):
                        inner[5]['hi'] = inner[5]['lo']
                emit(('defer', k) + tuple(inner))
                op2 = gen_exp(force_dop=k)
                return op2
            if kind == 'mvseq':
                if not m.seqs:
                    return None
                src = rng.choice(sorted(m.seqs))
                others = sorted((set(m.seqs) | m.husks) - {src})
                if others and rng.random() < 0.5:
                    return ('asseq', rng.choice(others), src)     # dst = std::move(src); dst may itself be a husk
                return ('mvseq', fresh(), src)
            if kind == 'tr':
                if len(m.tracers) >= 3:
                    return None
                return ('tr', fresh(), rng.choice([0, 0, 0, 1, 1, 2]))
            if kind == 'rmtr':
                if not m.tracers:
                    return None
                return ('rmtr', m.tracers[-1][0])
            if kind == 'rep':
                ar = rng.choice([1, 2, 2])
                if ar == 2 and rng.random() < 0.35:
                    return ('rep', rng.choice('ABC'), 2, 1)      # reporters given as pointers to plain functions
                return ('rep', rng.choice('ABC'), ar)
            if kind == 'setp':
                c = [e for e in m.exps.values() if not e.is_mon and e.shape['nw'] and e.shape['wlr']]
                if not c:
                    return None
                e = rng.choice(c)
                return ('setp', e.id, 'w%d' % rng.randrange(e.shape['nw']), rng.choice([15, 15, rng.randrange(16)]))
            raise ValueError(kind)

        def after(op):
            if op[0] in ('rmexp', 'rmexpx', 'rmexpc'):
                k = exp_slot.pop(op[1], None)
                if k:
                    if k[0] == 'site':
                        live_sites.discard(k[1])
                    else:
                        live_slots.discard(k)

        n = rng.randint(*pf['nops'])
        # always start with something to work on
        emit(('obj', fresh(), wchoice(rng, pf['kinds'])))
        tries = 0
        while len(ops) < n and tries < n * 6:
            tries += 1
            kind = wchoice(rng, pf['w'])
            op = gen_one(kind)
            if op is None:
                continue
            pr = emit(op)
            after(op)
            if cut_at[0] is not None and not pf['allow_cut']:
                break
        # teardown in a random but legal order
        self.teardown(rng, m, emit, after, would_cut_rmseq, would_cut_rmobj, nest_targets)
        return ops, preds, cut_at[0]

    def teardown(self, rng, m, emit, after, would_cut_rmseq, would_cut_rmobj, nest_targets):
        pf = self.prof
        guard = 0
        while (m.exps or m.objs or m.seqs or m.husks or m.tracers) and guard < 200:
            guard += 1
            c = []
            if m.tracers:
                c.append(('rmtr', m.tracers[-1][0]))
            for e in m.exps:
                r = rng.random()
                c.append(('rmexpx' if r < 0.08 else 'rmexpc' if r < 0.14 else 'rmexp', e))
            nt = nest_targets()
            for o in m.objs:
                if o in nt:
                    continue
                if pf['allow_cut'] or not would_cut_rmobj(o):
                    c.append(('rmobjx' if rng.random() < 0.06 else 'rmobj', o))
            for s in m.seqs:
                if pf['allow_cut'] or not would_cut_rmseq(s):
                    c.append(('rmseq', s))
            for s in m.husks:
                c.append(('rmseq', s))
            if not c:
                break
            if not pf['hostile_teardown'] and rng.random() < 0.6:
                # conventional order: expectations first
                ce = [x for x in c if x[0] in ('rmexp', 'rmexpx', 'rmexpc', 'rmtr')]
                if ce:
                    c = ce
            op = rng.choice(c)
            emit(op)
            after(op)


def scenario_hash(ops):
    import hashlib
    h = hashlib.blake2b(repr(ops).encode(), digest_size=8)
    return int.from_bytes(h.digest(), 'big')
