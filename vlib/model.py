"""Sequential reference model of trompeloeil's observable behaviour, written from the
property statements (C01-C08, C13, C15-C17), not from the code. Model.apply(op) returns a
Pred: the complete set of observables the statements predict for that operation."""
import copy

INFC = 1 << 30  # "infinite" sequence cost
FNIDX = {'f': 0, 'v': 1, 'gi': 2, 'gs': 3, 'h': 4, 'r': 5, 'c': 6}


def mk_accepts(mk, val, mask, arg):
    if mk in ('wild', 'ANY', 'ANYi', 'ANYs', 'ANYr'):
        return True
    if mk in ('lit', 'eq', 'lit2'):
        return arg == val
    if mk in ('slit', 'seq'):
        return arg == (val & 3)
    if mk == 'ne':
        return arg != val
    if mk == 'lt':
        return arg < val
    if mk == 'le':
        return arg <= val
    if mk == 'gt':
        return arg > val
    if mk == 'ge':
        return arg >= val
    if mk in ('set', 'tset', 'sset', 'set2'):
        return 0 <= arg < 32 and bool((mask >> arg) & 1)
    raise ValueError(mk)


class Exp:
    __slots__ = ('id', 'obj', 'fn', 'shape', 'slot', 'p', 'L', 'H', 'count', 'attached', 'saturated_list',
                 'reported', 'seqs', 'reg', 'is_mon', 'died', 'site', 'text', 'file', 'line', 'moved', 'seqnamed', 'deadseq')

    def sat(self):
        return self.died if self.is_mon else self.count >= self.L

    def satu(self):
        if self.is_mon:
            return self.died
        return self.H != -1 and self.count == self.H


class Obj:
    __slots__ = ('id', 'kind', 'funcs', 'mons', 'payload', 'moved')


class Seq:
    __slots__ = ('id', 'entries')


class Pred:
    """Predicted observables of one operation."""
    def __init__(self, op):
        self.op = op
        self.kind = op[0]
        self.outcome = None          # for calls
        self.accepted = None
        self.handler = None
        self.reports = []            # dicts: sev, kind, exp (id|None), any_of (ids), listing (list|None), args
        self.ok = []                 # (tag, text)
        self.trace = []              # (tracer id, tracer kind, exp id, args tuple, result)
        self.trace_dontcare = False  # a rejected call happened: trace records are don't-care
        self.clauses = []            # exact S/V/X events (eid, kind, idx, arg) incl. nested, in order
        self.with_ok = {}            # eid -> (masks, nw) for every expectation allowed to evaluate WITH
        self.flags = {}              # eid -> (sat, satu)
        self.seqc = {}               # sid -> completed
        self.create = None
        self.probe = None            # expected probe tags (rep, ok|None)
        self.assign = None
        self.ctx = set()             # context tags: seq, forbid, sat, moved, multi, nested...
        self.trig = set()            # trigger tags for evidence
        self.cut = None              # reason: behaviour after this op is outside the statements
        self.cut_self = False        # the op itself is already outside the statements
        self.rep = None              # reporter tag installed when the op ran
        self.wmasks = {}             # eid -> effective WITH masks at the time of the call


class Model:
    def __init__(self, meta):
        self.meta = meta
        self.shapes = {s['id']: s for s in meta['shapes']}
        self.sites = {m['site']: m for m in meta['mon_sites']}
        self.objs = {}
        self.exps = {}
        self.seqs = {}
        self.tracers = []   # stack of (id, kind)
        self.rep = 'A'
        self.okrep = 'A'
        self.dead_seqs = set()
        self.executing = []          # ids of the expectations whose actions are running (outermost first)
        self.deferred = {}           # k -> operation that a side effect in mode 6 will carry out (once)
        self.illegal = None          # set when a deferred operation cannot be carried out in the state it meets
        self.husks = set()           # ids of sequence objects that were moved from (only destruction / assignment is legal)
        self.tomb = -1               # next id for a dead sequence whose wrapper id is being reused by an assignment

    # ---- helpers ---------------------------------------------------------------------------
    def cost_in_seq(self, e, sid):
        if sid in e.deadseq:
            # the sequence object is gone: an entry that had been passed stays passed ("nothing registered before
            # it can match again"), an entry that was still pending has no predecessors left to wait for
            return INFC if e.deadseq[sid] == 'passed' else 0
        if not e.reg.get(sid):
            return INFC
        c = 0
        for x in self.seqs[sid].entries:
            if x == e.id:
                return c
            if not self.exps[x].sat():
                return INFC
            c += 1
        return INFC

    def order(self, e):
        c = 0
        for sid in e.seqs:
            c = max(c, self.cost_in_seq(e, sid))
        return c

    def unregister(self, e, sid):
        if e.reg.get(sid):
            e.reg[sid] = False
            self.seqs[sid].entries.remove(e.id)

    def retire_predecessors(self, e):
        for sid in e.seqs:
            if e.reg.get(sid):
                ents = self.seqs[sid].entries
                i = ents.index(e.id)
                for x in ents[:i]:
                    self.exps[x].reg[sid] = False
                del ents[:i]

    def retire(self, e):
        for sid in e.seqs:
            self.unregister(e, sid)

    def params_match(self, e, args):
        s = e.shape
        if not mk_accepts(s['mk'], e.p.get('val', 0), e.p.get('mask', 0), args[0]):
            return False
        if s['fn'] == 'h':
            if not mk_accepts(s['mk2'], e.p.get('val2', 0), e.p.get('mask2', 0), args[1]):
                return False
        return True

    def with_arg(self, e, args):
        return args[1] if e.shape['fn'] == 'h' else args[0]

    def withs_match(self, e, args):
        a = self.with_arg(e, args)
        for i in range(e.shape['nw']):
            if not ((e.p.get('w%d' % i, 0) >> a) & 1):
                return False, i
        return True, None

    def snapshot_flags(self, pred):
        for e in self.exps.values():
            pred.flags[e.id] = (e.sat(), e.satu())
        for s in self.seqs.values():
            pred.seqc[s.id] = all(self.exps[x].sat() for x in s.entries)

    # ---- operations --------------------------------------------------------------------------
    def apply(self, op):
        pred = Pred(op)
        pred.rep = self.rep
        getattr(self, 'op_' + op[0])(pred, *op[1:])
        self.snapshot_flags(pred)
        return pred

    def op_defer(self, pred, k, *op):
        self.deferred[k] = tuple(op)

    def deferred_executable(self, dop, handler):
        """can this deferred operation be carried out right now, from inside a side effect of `handler`?"""
        if dop[0] == 'rmexp':
            x = self.exps.get(dop[1])
            # not the expectation whose side effect this is, nor one further out whose actions are still running
            return x is not None and x.id != handler.id and x.id not in self.executing
        if dop[0] == 'exp':
            _, e, shape, slot, o, params = dop
            if e in self.exps or o not in self.objs:
                return False
            s = self.shapes[shape]
            if any(params.get('s%d' % j) not in self.seqs for j in range(s['nq'])):
                return False
            return True
        return False

    def op_obj(self, pred, o, kind):
        ob = Obj()
        ob.id, ob.kind, ob.mons, ob.payload, ob.moved = o, kind, [], o, False
        ob.funcs = {}
        self.objs[o] = ob

    def flist(self, ob, fn):
        if fn not in ob.funcs:
            ob.funcs[fn] = {'active': [], 'saturated': []}
        return ob.funcs[fn]

    def op_mvobj(self, pred, o2, o):
        src = self.objs[o]
        ob = Obj()
        ob.id, ob.kind, ob.mons, ob.payload, ob.moved = o2, src.kind, [], src.payload, True
        ob.funcs = src.funcs
        src.funcs = {}
        for fl in ob.funcs.values():
            for eid in fl['active'] + fl['saturated']:
                self.exps[eid].obj = o2
                self.exps[eid].moved = True
        self.objs[o2] = ob
        pred.ctx.add('moved')
        pred.trig.add('move')
        if any(fl['active'] or fl['saturated'] for fl in ob.funcs.values()):
            pred.trig.add('move_with_exps')

    def op_cpobj(self, pred, o2, o):
        src = self.objs[o]
        ob = Obj()
        ob.id, ob.kind, ob.mons, ob.payload, ob.moved = o2, src.kind, [], src.payload, False
        ob.funcs = {}
        self.objs[o2] = ob
        pred.trig.add('watch_copy')

    op_cpobjc = op_cpobj

    def op_asobj(self, pred, o2, o):
        self.objs[o2].payload = self.objs[o].payload
        pred.assign = self.objs[o2].payload
        pred.trig.add('watch_assign')
        if self.objs[o2].mons:
            pred.trig.add('watch_assign_monitored')

    op_asmv = op_asobj

    def op_seq(self, pred, s):
        q = Seq()
        q.id, q.entries = s, []
        self.seqs[s] = q

    def op_qseq(self, pred, s):
        pass

    def op_qexp(self, pred, e):
        pass

    def op_setp(self, pred, e, key, val):
        x = self.exps[e]
        if x.shape['wlr']:
            x.p[key] = val
        pred.trig.add('lr_mutation')

    def _rename_seq(self, old, new):
        q = self.seqs.pop(old)
        q.id = new
        self.seqs[new] = q
        for e in self.exps.values():
            if old in e.seqs:
                e.seqs = [new if x == old else x for x in e.seqs]
                if old in e.reg:
                    e.reg[new] = e.reg.pop(old)

    def _bury(self, s):
        # wrapper id s is about to name another sequence: expectations that still name the dead one keep it under a
        # tombstone id of its own
        for e in self.exps.values():
            if s in e.deadseq:
                t = self.tomb
                e.seqs = [t if x == s else x for x in e.seqs]
                e.deadseq[t] = e.deadseq.pop(s)
                e.reg.pop(s, None)
                e.reg[t] = False
        self.tomb -= 1

    def op_mvseq(self, pred, new, old):
        # sequence new(std::move(old)): the sequence itself (its registered expectations, its progress) lives on
        # under the new object; the old object is an empty husk
        self._rename_seq(old, new)
        self.husks.add(old)
        pred.trig.add('seq_moved')
        pred.ctx.add('seq')

    def op_asseq(self, pred, dst, src):
        # dst = std::move(src): what dst held is destroyed exactly as by its destructor, then as a move construction
        if dst in self.husks:
            self.husks.discard(dst)
        else:
            self.op_rmseq(pred, dst)
        self._bury(dst)
        self._rename_seq(src, dst)
        self.husks.add(src)
        pred.trig.add('seq_move_assigned')
        pred.ctx.add('seq')

    def op_rmseq(self, pred, s):
        if s in self.husks:
            self.husks.discard(s)        # a moved-from sequence object owns nothing
            pred.trig.add('seq_husk_destroyed')
            return
        q = self.seqs.pop(s)
        self.dead_seqs.add(s)
        if q.entries:
            pred.reports.append(dict(sev='N', kind='seqnotmet', exp=None, listing=list(q.entries), seq=s))
            pred.trig.add('seq_teardown_pending')
        else:
            pred.trig.add('seq_teardown_clean')
        for e in self.exps.values():
            if s in e.seqs:
                e.deadseq[s] = 'free' if e.reg.get(s) else 'passed'
                pred.trig.add('seq_destroyed_while_named')
        for x in q.entries:
            self.exps[x].reg[s] = False
        pred.ctx.add('seq')

    def op_exp(self, pred, e, shape, slot, o, params):
        s = self.shapes[shape]
        sl = s['slots'][slot]
        ob = self.objs[o]
        p = dict(params)
        if s['rt']:
            L = p.get('lo', 1)
            H = p.get('hi', 1) if s['lim'] == 'rt' else L
            if H != -1 and L > H:
                pred.create = 'logic'
                pred.trig.add('rt_inverted')
                if s['nq']:
                    pred.trig.add('rt_inverted_after_seq' if not s['lim_first'] else 'rt_inverted_before_seq')
                return
        else:
            L, H = s['L'], s['H']
        x = Exp()
        x.id, x.obj, x.fn, x.shape, x.slot, x.p = e, o, s['fn'], s, slot, p
        x.L, x.H, x.count, x.attached, x.saturated_list, x.reported = L, H, 0, True, False, False
        x.is_mon, x.died, x.site, x.moved, x.seqnamed = False, False, None, False, False
        x.text, x.file, x.line = sl['text'], sl['file'], sl['line']
        x.seqs = [p['s%d' % i] for i in range(s['nq'])]
        x.reg = {}
        x.deadseq = {}
        self.exps[e] = x
        for sid in x.seqs:
            if sid in x.reg:
                continue  # same sequence named twice: registered twice in the library; generators avoid it
            x.reg[sid] = True
            self.seqs[sid].entries.append(e)
        self.flist(ob, x.fn)['active'].insert(0, e)
        pred.create = 'ok'
        if x.seqs:
            pred.ctx.add('seq')

    def op_mon(self, pred, e, site, o, *seqs):
        st = self.sites[site]
        x = Exp()
        x.id, x.obj, x.fn, x.shape, x.slot, x.p = e, o, None, None, 0, {}
        x.L, x.H, x.count, x.attached, x.saturated_list, x.reported = 1, 1, 0, False, False, False
        x.is_mon, x.died, x.site, x.moved, x.seqnamed = True, False, st, False, False
        x.text, x.file, x.line = st['text'], st['file'], st['line']
        x.seqs = list(seqs)
        x.reg = {}
        x.deadseq = {}
        self.exps[e] = x
        for sid in x.seqs:
            x.reg[sid] = True
            self.seqs[sid].entries.append(e)
        self.objs[o].mons.append(e)
        pred.create = 'ok'
        pred.trig.add('mon_create')
        if x.seqs:
            pred.ctx.add('seq')

    def op_rmexp(self, pred, e):
        x = self.exps.pop(e)
        if x.is_mon:
            pred.ctx.add('mon')
            if not x.died:
                pred.reports.append(dict(sev='N', kind='alive', exp=e))
                pred.trig.add('mon_released_alive')
                ob = self.objs.get(x.obj)
                if ob and e in ob.mons:
                    ob.mons.remove(e)
            else:
                pred.trig.add('mon_released_died')
            for sid in x.seqs:
                if sid in self.seqs:
                    self.unregister(x, sid)
            self._gone = x
            return
        if x.H == 0:
            pred.ctx.add('forbid')
        if x.attached and not x.reported and x.count < x.L:
            pred.reports.append(dict(sev='N', kind='unfulfilled', exp=e, count=x.count, L=x.L, optional=x.seqnamed))
            pred.trig.add('eol_report')
        else:
            pred.trig.add('eol_silent')
            if x.count < x.L:
                pred.trig.add('eol_silent_shortfall')
        if x.attached:
            fl = self.objs[x.obj].funcs[x.fn]
            (fl['saturated'] if x.saturated_list else fl['active']).remove(e)
        for sid in x.seqs:
            if sid in self.seqs:
                self.unregister(x, sid)
        if x.seqs:
            pred.ctx.add('seq')
        self._gone = x

    def op_rmexpx(self, pred, e):
        self.op_rmexp(pred, e)
        pred.trig.add('eol_during_unwinding')

    def op_rmexpc(self, pred, e):
        self.op_rmexp(pred, e)
        pred.trig.add('eol_inside_catch')

    def op_rmobjc(self, pred, o):
        self.op_rmobj(pred, o)
        pred.trig.add('death_inside_catch')

    def op_rmobjx(self, pred, o):
        self.op_rmobj(pred, o)
        pred.trig.add('death_during_unwinding')

    def op_rmobj(self, pred, o):
        ob = self.objs.pop(o)
        if ob.kind in ('W', 'P'):
            pred.ctx.add('mon')
            if ob.mons:
                for e in list(ob.mons):
                    x = self.exps[e]
                    x.died = True
                    for sid in x.seqs:
                        if (sid in self.seqs or sid in x.deadseq) and self.cost_in_seq(x, sid) == INFC:
                            pred.reports.append(dict(sev='N', kind='destr_seq', exp=e, seq=sid))
                            pred.trig.add('destr_out_of_seq')
                    x.count += 1
                    self.retire_predecessors(x)
                    self.retire(x)
                    if x.seqs:
                        pred.ctx.add('seq')
                pred.trig.add('mon_death')
            else:
                pred.reports.append(dict(sev='N', kind='unexpected', exp=None))
                pred.trig.add('unexpected_death')
        still_registered = []
        for fn, fl in ob.funcs.items():
            for eid in fl['active'] + fl['saturated']:
                x = self.exps[eid]
                if not x.reported and x.count < x.L:
                    pred.reports.append(dict(sev='N', kind='pending', exp=eid, count=x.count, L=x.L, optional=x.seqnamed))
                    x.reported = True
                    pred.trig.add('pending_report')
                x.attached = False
                if any(x.reg.get(s) for s in x.seqs):
                    still_registered.append(eid)
        if still_registered:
            pred.cut = 'mock destroyed while its expectations %s are still registered in sequences' % still_registered
        if ob.moved:
            pred.ctx.add('moved')

    def op_tr(self, pred, t, kind):
        self.tracers.append((t, kind))
        pred.trig.add('tracer_push')

    def op_rmtr(self, pred, t):
        assert self.tracers and self.tracers[-1][0] == t
        self.tracers.pop()
        pred.trig.add('tracer_pop')

    def op_rep(self, pred, tag, arity, form=0):
        if arity == 1:
            pred.probe = (self.rep, None)
            self.rep = tag
        else:
            pred.probe = (self.rep, self.okrep)
            self.rep = tag
            self.okrep = tag
        pred.trig.add('set_reporter')

    def op_call(self, pred, o, fn, *args):
        pred.outcome = self.do_call(pred, o, fn, args, nested=False)

    def op_callx(self, pred, o, fn, *args):
        pred.outcome = self.do_call(pred, o, fn, args, nested=False)
        pred.trig.add('call_in_handler')

    def op_callu(self, pred, o, fn, *args):
        pred.outcome = self.do_call(pred, o, fn, args, nested=False)
        pred.trig.add('call_during_unwinding')
        if pred.accepted is not True or pred.outcome[0] not in ('ret', 'void', 'ref') or pred.cut:
            self.illegal = 'a call made from a destructor during unwinding must be accepted and return normally'

    def do_call(self, pred, o, fn, args, nested):
        ob = self.objs[o]
        fl = self.flist(ob, fn)
        if ob.moved:
            pred.ctx.add('moved')
        matching = []
        for eid in fl['active']:
            e = self.exps[eid]
            pred.with_ok[eid] = True
            pred.wmasks[eid] = [e.p.get('w%d' % j, 0) for j in range(e.shape['nw'])]
            if not self.params_match(e, args):
                continue
            ok, _ = self.withs_match(e, args)
            if not ok:
                continue
            matching.append(eid)
            if e.seqs:
                pred.ctx.add('seq')
            if e.H == 0:
                pred.ctx.add('forbid')
        for eid in fl['saturated']:
            pred.with_ok[eid] = True
            pred.wmasks[eid] = [self.exps[eid].p.get('w%d' % j, 0) for j in range(self.exps[eid].shape['nw'])]
        # designated candidate: fewest pending earlier steps, newest on ties (C02)
        chosen, lowest = None, INFC
        costs = [self.order(self.exps[m]) for m in matching]
        for m, c in zip(matching, costs):
            if chosen is None or c < lowest:
                chosen, lowest = self.exps[m], c
        if len(matching) > 1:
            pred.trig.add('multi_candidates')
            pred.ctx.add('multi')
            if matching[0] != chosen.id:
                pred.trig.add('older_chosen')
            if costs.count(lowest) > 1:
                pred.trig.add('cost_tie')
        if chosen is None:
            sat_matches = []
            for eid in fl['saturated']:
                e = self.exps[eid]
                if self.params_match(e, args) and self.withs_match(e, args)[0]:
                    sat_matches.append(eid)
            listing = None
            if sat_matches:
                pred.ctx.add('sat')
                pred.trig.add('saturated_nomatch')
            else:
                listing = []
                for eid in fl['active']:
                    e = self.exps[eid]
                    e.reported = True
                    if self.params_match(e, args):
                        ok, idx = self.withs_match(e, args)
                        listing.append((eid, 'with', idx))
                    else:
                        bad = []
                        s = e.shape
                        if not mk_accepts(s['mk'], e.p.get('val', 0), e.p.get('mask', 0), args[0]):
                            bad.append(1)
                        if s['fn'] == 'h' and not mk_accepts(s['mk2'], e.p.get('val2', 0), e.p.get('mask2', 0), args[1]):
                            bad.append(2)
                        listing.append((eid, 'params', bad))
            pred.reports.append(dict(sev='F', kind='nomatch', exp=None, fn=fn, args=args,
                                     saturated=sat_matches, listing=listing))
            pred.trig.add('rejected'); pred.trig.add('nomatch')
            pred.trace_dontcare = True
            if nested:
                pred.cut = 'nested call rejected'
                pred.cut_self = True
            else:
                pred.accepted = False
            return ('fatal',)
        if chosen.H == 0:
            chosen.reported = True
            pred.reports.append(dict(sev='F', kind='forbidden', exp=chosen.id, fn=fn, args=args))
            pred.trig.add('rejected'); pred.trig.add('forbid_hit')
            pred.ctx.add('forbid')
            pred.trace_dontcare = True
            if nested:
                pred.cut = 'nested call rejected'
                pred.cut_self = True
            else:
                pred.accepted = False
            return ('fatal',)
        if lowest >= INFC:
            pred.reports.append(dict(sev='F', kind='seq', exp=None, any_of=list(matching), fn=fn, args=args))
            for m in matching:
                self.exps[m].seqnamed = True
            pred.trig.add('rejected'); pred.trig.add('seq_blocked')
            pred.ctx.add('seq')
            pred.trace_dontcare = True
            if nested:
                pred.cut = 'nested call rejected'
                pred.cut_self = True
            else:
                pred.accepted = False
            return ('fatal',)
        # accepted
        e = chosen
        if not nested:
            pred.accepted = True
            pred.handler = e.id
        pred.trig.add('accepted')
        if e.moved:
            pred.trig.add('call_on_moved')
        if lowest > 0:
            pred.trig.add('skipped_optional')
        e.count += 1
        self.retire_predecessors(e)
        if e.H != -1 and e.count == e.H:
            self.retire(e)
            fl['active'].remove(e.id)
            fl['saturated'].append(e.id)
            e.saturated_list = True
            pred.ctx.add('sat')
            pred.trig.add('saturates')
        pred.ok.append((self.okrep, e.text))
        s = e.shape
        a0 = args[0]
        tr = self.tracers[-1] if self.tracers else None
        result = None
        self.executing.append(e.id)
        try:
            for i in range(s['ns']):
                pred.clauses.append((e.id, 'S', i, a0))
                mode = e.p.get('se%d' % i, 0)
                if mode == 4 and s['fn'] == 'r':
                    a0 = 77 + i            # written through the reference parameter: later clauses and the caller see it
                    pred.trig.add('write_through_param')
                if mode == 6:
                    # re-entrancy: the side effect releases another expectation or creates a new one (once)
                    dop = self.deferred.pop(e.p.get('dop'), None)
                    if dop is not None:
                        if not self.deferred_executable(dop, e):
                            self.illegal = 'deferred %s not executable' % (dop[0],)
                        else:
                            getattr(self, 'op_' + dop[0])(pred, *dop[1:])
                            pred.trig.add('side_effect_releases_expectation' if dop[0] == 'rmexp' else 'side_effect_creates_expectation')
                if mode == 5:
                    # the side effect destroys an object - the mock whose function is executing, or the husk it was
                    # moved from: everything a destruction does happens now, inside the call (non-fatal reports),
                    # and the call then runs to its end
                    if e.p['nobj'] in self.objs:
                        self.op_rmobj(pred, e.p['nobj'])
                        pred.trig.add('mock_destroyed_in_own_call' if e.p['nobj'] == o else 'husk_destroyed_in_call')
                if mode == 1:
                    result = ('exc', 'S', e.id, i)
                    pred.trig.add('se_throws')
                    return result
                if mode == 2 or (mode == 3 and a0 > 0):
                    pred.clauses.append(('N{',))
                    pred.trig.add('nested_call')
                    narg = e.p.get('narg', 0) if mode == 2 else a0 - 1
                    nfn = 'f' if (mode == 3 and e.p.get('nfn') == 1) else 'v'
                    if e.p['nobj'] == o and fn == nfn:
                        pred.trig.add('recursive_call')
                    if nfn == 'f':
                        pred.trig.add('recursion_into_value_function')
                    r = self.do_call(pred, e.p['nobj'], nfn, (narg,), nested=True)
                    pred.clauses.append(('N}',))
                    if r[0] in ('exc', 'fatal'):
                        result = r
                        return result
            if s['ns'] >= 2:
                pred.trig.add('se_multi')
            act = s['act']
            if act == 'none':
                result = ('void',)
            elif act in ('ret', 'lrret'):
                pred.clauses.append((e.id, 'V', 0, a0))
                result = ('ret', e.id)
            elif act == 'retref':
                pred.clauses.append((e.id, 'V', 0, a0))
                result = ('ref', e.id, e.p.get('slot', 0) & 7, a0)
            elif act == 'tstd':
                pred.clauses.append((e.id, 'X', 0, a0))
                result = ('exc', 'P', e.id)
                pred.trig.add('throws')
            elif act == 'tint':
                pred.clauses.append((e.id, 'X', 0, a0))
                result = ('exc', 'I', e.id)
                pred.trig.add('throws')
            return result
        finally:
            self.executing.pop()
            if result is not None and result[0] == 'exc':
                pred.ctx.add('threw')     # the call left by exception: it still counts as handled (C08)
            if tr is not None:
                pred.trace.append((tr[0], tr[1], e.id, fn, tuple(args), result))
                pred.trig.add('traced')


    # ---- cloning / hashing (used by the linearizability search) --------------------------------
    def clone(self):
        m = Model.__new__(Model)
        m.meta, m.shapes, m.sites = self.meta, self.shapes, self.sites
        m.objs = {}
        for k, o in self.objs.items():
            n = Obj()
            n.id, n.kind, n.payload, n.moved = o.id, o.kind, o.payload, o.moved
            n.mons = list(o.mons)
            n.funcs = {fn: {'active': list(fl['active']), 'saturated': list(fl['saturated'])} for fn, fl in o.funcs.items()}
            m.objs[k] = n
        m.exps = {}
        for k, e in self.exps.items():
            n = Exp()
            for a in Exp.__slots__:
                setattr(n, a, getattr(e, a))
            n.reg = dict(e.reg)
            n.seqs = list(e.seqs)
            n.deadseq = dict(e.deadseq)
            m.exps[k] = n
        m.seqs = {}
        for k, q in self.seqs.items():
            n = Seq()
            n.id, n.entries = q.id, list(q.entries)
            m.seqs[k] = n
        m.tracers = list(self.tracers)
        m.rep, m.okrep = self.rep, self.okrep
        m.dead_seqs = set(self.dead_seqs)
        m.husks = set(self.husks)
        m.deferred = dict(self.deferred)
        m.executing = list(self.executing)
        m.illegal = self.illegal
        m.tomb = self.tomb
        return m

    def key(self):
        return (tuple(sorted((e.id, e.count, e.L, e.H, e.attached, e.saturated_list, e.reported, e.died, tuple(sorted(e.reg.items())), tuple(sorted(e.deadseq.items())))
                             for e in self.exps.values())),
                tuple(sorted((q.id, tuple(q.entries)) for q in self.seqs.values())),
                tuple(sorted((o.id, tuple(o.mons), tuple(sorted((FNIDX[fn], tuple(fl['active']), tuple(fl['saturated'])) for fn, fl in o.funcs.items())))
                             for o in self.objs.values())))

    # ---- compound creation of a sequenced expectation (C12): register / set bounds / become callable ----
    def op_exp_reg(self, pred, e, shape, slot, o, params, idx, lim_known):
        s = self.shapes[shape]
        if e not in self.exps:
            sl = s['slots'][slot]
            p = dict(params)
            if lim_known:
                if s['rt']:
                    L = p.get('lo', 1)
                    H = p.get('hi', 1) if s['lim'] == 'rt' else L
                else:
                    L, H = s['L'], s['H']
            else:
                L, H = 1, 1
            x = Exp()
            x.id, x.obj, x.fn, x.shape, x.slot, x.p = e, o, s['fn'], s, slot, p
            x.L, x.H, x.count, x.attached, x.saturated_list, x.reported = L, H, 0, False, False, False
            x.is_mon, x.died, x.site, x.moved, x.seqnamed = False, False, None, False, False
            x.text, x.file, x.line = sl['text'], sl['file'], sl['line']
            x.seqs = [p['s%d' % i] for i in range(s['nq'])]
            x.reg = {}
            x.deadseq = {}
            self.exps[e] = x
        x = self.exps[e]
        sid = x.seqs[idx]
        x.reg[sid] = True
        self.seqs[sid].entries.append(e)
        pred.ctx.add('seq')

    def op_exp_lim(self, pred, e):
        x = self.exps[e]
        s, p = x.shape, x.p
        L = p.get('lo', 1)
        H = p.get('hi', 1) if s['lim'] == 'rt' else L
        if not s['rt']:
            L, H = s['L'], s['H']
        if H != -1 and L > H:
            for sid in x.seqs:
                self.unregister(x, sid)
            del self.exps[e]
            pred.create = 'logic'
            return
        x.L, x.H = L, H

    def op_exp_hook(self, pred, e):
        x = self.exps[e]
        x.attached = True
        self.flist(self.objs[x.obj], x.fn)['active'].insert(0, e)
        pred.create = 'ok'

    def op_mon_attach(self, pred, e, site, o, *seqs):
        st = self.sites[site]
        x = Exp()
        x.id, x.obj, x.fn, x.shape, x.slot, x.p = e, o, None, None, 0, {}
        x.L, x.H, x.count, x.attached, x.saturated_list, x.reported = 1, 1, 0, False, False, False
        x.is_mon, x.died, x.site, x.moved, x.seqnamed = True, False, st, False, False
        x.text, x.file, x.line = st['text'], st['file'], st['line']
        x.seqs = list(seqs)
        x.reg = {}
        x.deadseq = {}
        self.exps[e] = x
        self.objs[o].mons.append(e)

    def op_mon_reg(self, pred, e, idx, last):
        x = self.exps[e]
        sid = x.seqs[idx]
        x.reg[sid] = True
        self.seqs[sid].entries.append(e)
        if last:
            pred.create = 'ok'

    def live_ids(self):
        return set(self.exps)


def op_to_line(op):
    k = op[0]
    if k == 'defer':
        return 'defer %d %s' % (op[1], op_to_line(tuple(op[2:])))
    if k == 'exp':
        _, e, shape, slot, o, params = op
        kv = ' '.join('%s=%d' % (a, b) for a, b in sorted(params.items()))
        return 'exp %d %d %d %d %s' % (e, shape, slot, o, kv)
    return ' '.join(str(x) for x in op)
