"""Dispatch: property id -> engine."""
from . import plans

def run(prop, tier, seed):
    if prop in plans.SCEN:
        from . import scen_check
        return scen_check.run(prop, tier, seed)
    if prop == 'C10':
        from . import gen_match
        return gen_match.run(prop, tier, seed)
    if prop == 'C11':
        from . import gen_range
        return gen_range.run(prop, tier, seed)
    if prop == 'C18':
        from . import gen_print
        return gen_print.run(prop, tier, seed)
    if prop == 'C20':
        from . import gen_coro
        return gen_coro.run(prop, tier, seed)
    if prop == 'C09':
        from . import gen_args
        return gen_args.run(prop, tier, seed)
    if prop == 'C12':
        from . import thr
        return thr.run(prop, tier, seed)
    print('property %s is not claimed' % prop)
    return 2

def replay(prop, path):
    import json
    w = json.load(open(path))
    if w.get('engine') == 'scen':
        from . import scen_check
        return scen_check.replay(prop, path)
    if w.get('engine') == 'thr':
        from . import thr
        return thr.replay(prop, path)
    print('unknown witness engine')
    return 2
