"""Dispatch: property id -> engine."""
from . import plans

def run(prop, tier, seed):
    if prop in plans.SCEN:
        from . import scen_check
        return scen_check.run(prop, tier, seed)
    if prop == 'C10':
        from . import gen_match
        return gen_match.run(prop, tier, seed)
    if prop == 'C11':
        from . import gen_range
        return gen_range.run(prop, tier, seed)
    if prop == 'C18':
        from . import gen_print
        return gen_print.run(prop, tier, seed)
    if prop == 'C20':
        from . import gen_coro
        return gen_coro.run(prop, tier, seed)
    if prop == 'C09':
        from . import gen_args
        return gen_args.run(prop, tier, seed)
    if prop == 'C12':
        from . import thr
        return thr.run(prop, tier, seed)
    print('property %s is not claimed' % prop)
    return 2

def replay(prop, path):
    import json
    w = json.load(open(path))
    if w.get('engine') == 'scen':
        from . import scen_check
        return scen_check.replay(prop, path)
    if w.get('engine') == 'thr':
        from . import thr
        return thr.replay(prop, path)
    # witnesses of the generated self-reporting programs and of the fixed scenes: those programs are deterministic
    # functions of (tree, tier, seed), so replaying means running that check again with the recorded tier and seed
    print('replay: witness of engine %r - re-running %s --tier %s with seed %s' % (w.get('engine'), prop, w.get('tier', 'quick'), w.get('seed', 1)))
    return run(prop, w.get('tier', 'quick'), int(w.get('seed', 1)))
