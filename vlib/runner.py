"""Common check runner: verdict discipline (0 held / 1 violated / 2 inconclusive), known
findings, witness files, evidence files."""
import os, sys, json, time, re
from . import build

VERIF = build.VERIF
OUT = os.path.join(VERIF, 'out')
EVID = os.path.join(VERIF, 'evidence')
KNOWN = os.path.join(VERIF, 'known_findings.txt')


def load_known():
    known, fixed = [], []
    if os.path.exists(KNOWN):
        for ln in open(KNOWN):
            ln = ln.strip()
            if not ln or ln.startswith('#'):
                continue
            m = re.match(r'known:\s+property=(\S+)\s+key=(\S+)\s+witness=(\S+)\s+(.*)', ln)
            if m:
                known.append(dict(prop=m.group(1), key=m.group(2), witness=m.group(3), what=m.group(4)))
                continue
            m = re.match(r'fixed:\s+property=(\S+)\s+(\S+)\s+(.*)', ln)
            if m:
                fixed.append(dict(prop=m.group(1), commit=m.group(2), what=m.group(3)))
    return known, fixed


class Verdict:
    def __init__(self, prop, tier, seed):
        self.prop, self.tier, self.seed = prop, tier, seed
        self.t0 = time.time()
        self.violations = []     # (key, detail, witness dict)
        self.known_hits = []
        self.inconclusive = []
        self.coverage = {}
        self.assumptions = []

    def violation(self, key, detail, witness):
        self.violations.append((key, detail, witness))

    def finish(self, level='exploration'):
        os.makedirs(EVID, exist_ok=True)
        os.makedirs(os.path.join(OUT, self.prop), exist_ok=True)
        for fn in os.listdir(os.path.join(OUT, self.prop)):
            if fn.startswith('witness_%s_%d_' % (self.tier, self.seed)):
                os.unlink(os.path.join(OUT, self.prop, fn))
        # de-duplicate violations by key, keep the shortest witness of each
        bykey = {}
        for key, detail, w in self.violations:
            cur = bykey.get(key)
            size = len(json.dumps(w, default=str))
            if cur is None or size < cur[2]:
                bykey[key] = (detail, w, size)
        lines = []
        n = 0
        for key, (detail, w, _) in sorted(bykey.items()):
            n += 1
            if n > 8:
                break
            path = os.path.join(OUT, self.prop, 'witness_%s_%d_%d.json' % (self.tier, self.seed, n))
            w = dict(w)
            w.update(property=self.prop, key=key, detail=detail, seed=self.seed, tier=self.tier, tree=build.tree_hash())
            with open(path, 'w') as f:
                json.dump(w, f, indent=1, default=str)
            lines.append('VIOLATION property=%s replay=%s' % (self.prop, path))
            print('  %s: %s' % (key, detail[:400].replace('\n', ' | ')))
        for k in self.known_hits:
            print('KNOWN-FINDING: property=%s %s' % (self.prop, k))
        for l in lines:
            print(l)
        cov = dict(self.coverage)
        cov.setdefault('evaluations', 0)
        cov.setdefault('distinct_nontrivial', 0)
        cov.setdefault('rule', '')
        cov.setdefault('samples', [])
        ev = dict(property_id=self.prop, tier=self.tier, seed=self.seed, level=level, coverage=cov,
                  assumptions=self.assumptions, wall_s=round(time.time() - self.t0, 2), violations=len(bykey),
                  tree_hash=build.tree_hash(), inconclusive=self.inconclusive[:10], known_findings=self.known_hits)
        with open(os.path.join(EVID, '%s.json' % self.prop), 'w') as f:
            json.dump(ev, f, indent=1, default=str)
        if lines:
            return 1
        if self.inconclusive:
            for x in self.inconclusive[:10]:
                print('INCONCLUSIVE: %s' % x[-3000:])
            return 2
        print('held: property=%s tier=%s seed=%d evaluations=%d distinct_nontrivial=%d wall=%.1fs' % (
            self.prop, self.tier, self.seed, cov['evaluations'], cov['distinct_nontrivial'], time.time() - self.t0))
        return 0
