"""Scenario engine: generate histories, run them through the real library (scenario driver
built with sanitizers), compare every observable with the reference model, aggregate."""
import os, sys, json, time, random, subprocess, hashlib, re, signal, traceback, zlib
from multiprocessing import Pool
from . import build, shapes, model, oracle, gens

VERIF = build.VERIF
OUT = os.path.join(VERIF, 'out')
DRIVER_SRC = os.path.join(VERIF, 'drivers', 'scen', 'driver.cpp')

ASAN_ENV = {
    'ASAN_OPTIONS': 'abort_on_error=1:detect_leaks=1:detect_stack_use_after_return=1:allocator_may_return_null=1:quarantine_size_mb=16',
    'UBSAN_OPTIONS': 'print_stacktrace=1:halt_on_error=1',
    'LSAN_OPTIONS': 'exitcode=23',
}


def _gen(srcdir):
    return shapes.generate(srcdir)['files']


def build_driver(config='asan'):
    xh = hashlib.sha256(open(os.path.join(VERIF, 'vlib', 'shapes.py'), 'rb').read()).hexdigest()
    exe, bdir = build.build('scen', config, [DRIVER_SRC], gen=_gen, extra_hash=xh)
    meta = json.load(open(os.path.join(bdir, 'src', 'shapes.json')))
    return exe, meta


def scen_text(sid, ops, autoq=True, leak=True):
    lines = ['S %d %d' % (sid, 1 if autoq else 0)]
    lines += [model.op_to_line(op) for op in ops]
    lines.append('E %d' % (1 if leak else 0))
    return '\n'.join(lines) + '\n'


def run_driver(exe, text, timeout, unbuf=False):
    env = dict(os.environ)
    env.update(ASAN_ENV)
    if unbuf:
        env['VERIF_UNBUF'] = '1'
    try:
        p = subprocess.run([exe], input=text.encode(), stdout=subprocess.PIPE, stderr=subprocess.PIPE, env=env, timeout=timeout)
        return p.returncode, p.stdout.decode('latin-1'), p.stderr.decode('latin-1'), False
    except subprocess.TimeoutExpired as ex:
        return -9, (ex.stdout or b'').decode('latin-1'), (ex.stderr or b'').decode('latin-1'), True


def crash_signature(rc, err):
    m = re.search(r'ERROR: (AddressSanitizer|LeakSanitizer|UndefinedBehaviorSanitizer)[: ]+([a-zA-Z\-_ ]+)', err)
    frames = re.findall(r'#\d+ 0x[0-9a-f]+ in ([^\s(]+)', err)
    tf = [f for f in frames if 'trompeloeil' in f][:2]
    if m:
        return '%s:%s@%s' % (m.group(1), m.group(2).strip().replace(' ', '-')[:40], '/'.join(tf))
    m = re.search(r'runtime error: ([^\n]+)', err)
    if m:
        return 'UBSan:' + re.sub(r'0x[0-9a-f]+', 'ADDR', m.group(1))[:80]
    m = re.search(r'Assertion `([^\']+)\' failed', err)
    if m:
        return 'assert:' + m.group(1)[:80]
    return 'exit:%s' % rc


class Result:
    def __init__(self):
        self.evaluations = 0
        self.ops = 0
        self.ops_by_kind = {}
        self.trig_hashes = {}     # tag -> set of scenario hashes
        self.violations = []      # dict
        self.foreign = {}         # aspect -> count (mismatches owned by other properties)
        self.cuts = 0
        self.cut_reasons = {}
        self.compared_ops = 0
        self.reports_seen = {}
        self.samples = []
        self.inconclusive = []
        self.states = set()
        self.exhaustive = None
        self.calls = {}           # predicted call outcomes by kind (per call, not per scenario)
        self.by_spec = {}         # generator name -> scenarios
        self.trig_counts = {}     # tag -> number of scenarios (all tags; hash sets are kept only for the property's own triggers)

    def merge(self, o):
        self.evaluations += o.evaluations
        self.ops += o.ops
        self.compared_ops += o.compared_ops
        self.cuts += o.cuts
        for k, v in o.ops_by_kind.items():
            self.ops_by_kind[k] = self.ops_by_kind.get(k, 0) + v
        for k, v in o.trig_hashes.items():
            self.trig_hashes.setdefault(k, set()).update(v)
        for k, v in o.foreign.items():
            self.foreign[k] = self.foreign.get(k, 0) + v
        for k, v in o.cut_reasons.items():
            self.cut_reasons[k] = self.cut_reasons.get(k, 0) + v
        for k, v in o.reports_seen.items():
            self.reports_seen[k] = self.reports_seen.get(k, 0) + v
        for k, v in o.calls.items():
            self.calls[k] = self.calls.get(k, 0) + v
        for k, v in o.by_spec.items():
            self.by_spec[k] = self.by_spec.get(k, 0) + v
        for k, v in o.trig_counts.items():
            self.trig_counts[k] = self.trig_counts.get(k, 0) + v
        self.violations += o.violations
        if len(self.samples) < 4:
            self.samples += o.samples[:4 - len(self.samples)]
        self.inconclusive += o.inconclusive
        self.states |= o.states


def viol_key(prop, m):
    if m.sub:
        return '%s|%s' % (m.aspect, m.sub)
    d = re.sub(r"\(.*?\)|\[.*?\]|'.*?'|\d+", '', m.detail)
    d = re.sub(r'\s+', ' ', d)[:60]
    return '%s|%s' % (m.aspect, d)


def check_scenario(prop, ops, preds, cut_at, sobs, res, meta, sid, reg_cache=None):
    """Compare one executed scenario. Returns list of violation dicts (owned by prop)."""
    viol = []
    reg = oracle.Registry()
    # registry needs static info of every expectation: rebuild by replaying the model (cheap)
    m = model.Model(meta)
    nops = len(ops)
    oobs = sobs['ops']
    if len(oobs) < nops and cut_at is None:
        viol.append(dict(aspect='harness', key='harness|short-output', detail='driver produced %d op records for %d ops' % (len(oobs), nops), op_index=len(oobs)))
        return viol
    desync = False
    for i, op in enumerate(ops):
        pr = m.apply(op)
        reg.note(m)
        hk = hash(m.key())
        if hk & 15 == 0:
            res.states.add(hk)       # 1/16 sample of the distinct model states reached
        if i >= len(oobs):
            break
        if cut_at is not None and (i > cut_at or (i == cut_at and pr.cut_self)):
            # beyond the statements' territory: only the model-independent severity rule still applies
            # (fatal from calls, non-fatal from destroying operations)
            for ri, (tag, sev, f, line, msg) in enumerate(oobs[i].reports):
                want = 'F' if op[0] in ('call', 'callx', 'callu') and ri not in oobs[i].destr else 'N'
                if sev != want:
                    mm = oracle.Mismatch('report.severity', {'after_cut'}, '%s report during %s (after the history left the modelled territory): %r' % (sev, op[0], msg[:100]), 'after-cut')
                    if prop in oracle.owners(mm):
                        viol.append(dict(aspect=mm.aspect, key=viol_key(prop, mm), detail=mm.detail, op_index=i, ctx=sorted(mm.ctx), predicted=None, observed=_obs_summary(oobs[i])))
            continue
        if desync:
            continue
        ob = oobs[i]
        res.compared_ops += 1
        for (tag, sev, f, line, msg) in ob.reports:
            k = oracle.classify(msg)
            res.reports_seen[k] = res.reports_seen.get(k, 0) + 1
        mms = oracle.compare(pr, ob, reg, op[0] in ('call', 'callx', 'callu'))
        for mm in mms:
            ow = oracle.owners(mm)
            if prop in ow or '*' in ow:
                viol.append(dict(aspect=mm.aspect, key=viol_key(prop, mm), detail=mm.detail, op_index=i, ctx=sorted(mm.ctx),
                                 predicted=_pred_summary(pr), observed=_obs_summary(ob)))
                if mm.aspect in oracle.STATE_ASPECTS:
                    desync = True
            else:
                res.foreign[mm.aspect] = res.foreign.get(mm.aspect, 0) + 1
                if mm.aspect in oracle.STATE_ASPECTS:
                    desync = True
        if viol and len(viol) >= 3:
            break
    if sobs.get('leak'):
        viol.append(dict(aspect='leak', key='leak', detail='LeakSanitizer found leaks at the end of the scenario', op_index=nops))
    return viol


def _pred_summary(pr):
    return dict(op=list(pr.op[:5]) if pr.op[0] != 'exp' else list(pr.op), accepted=pr.accepted, handler=pr.handler, outcome=pr.outcome,
                reports=[{k: v for k, v in r.items()} for r in pr.reports], ok=pr.ok, clauses=pr.clauses,
                trace=pr.trace, flags={str(k): v for k, v in pr.flags.items()}, seqc={str(k): v for k, v in pr.seqc.items()},
                cut=pr.cut)


def _obs_summary(ob):
    return dict(outcome=ob.outcome, reports=ob.reports, ok=ob.ok, clauses=ob.clauses, trace=ob.trace,
                q={str(k): v for k, v in ob.q.items()}, qs={str(k): v for k, v in ob.qs.items()}, create=ob.create, probe=ob.probe)


def run_batch(prop, exe, meta, scen_list, res, timeout=180, leak=True):
    """scen_list: list of (ops, preds, cut_at, hash). Runs them in one driver process, handles crashes."""
    pending = list(enumerate(scen_list))
    while pending:
        last = pending[-1][0]
        text = ''.join(scen_text(i, s[0], leak=(leak and i == last)) for i, s in pending)
        rc, out, err, timed_out = run_driver(exe, text, timeout)
        parsed, order = oracle.parse_scenarios(out)
        if leak and len(pending) > 1 and last in parsed and parsed[last].get('leak'):
            # the one leak check at the end of the batch fired: find the leaking scenario(s) one by one
            parsed[last]['leak'] = 0
            for i, s in pending:
                rc1, out1, err1, to1 = run_driver(exe, scen_text(i, s[0], leak=True), 60)
                p1, _ = oracle.parse_scenarios(out1)
                if i in p1 and p1[i].get('leak'):
                    res.violations.append(dict(aspect='leak', key='leak', detail='LeakSanitizer: scenario leaks memory: %s' % err1[-1500:], op_index=len(s[0]), ops=s[0]))
        done = [i for i in order if parsed[i]['ended']]
        doneset = set(done)
        for i, s in pending:
            if i in doneset:
                v = check_scenario(prop, s[0], s[1], s[2], parsed[i], res, meta, i)
                for x in v:
                    x['ops'] = s[0]
                    res.violations.append(x)
        rest = [(i, s) for i, s in pending if i not in doneset]
        if not rest:
            if rc != 0:
                res.violations.append(dict(aspect='crash', key='crash|exit-after-all|' + crash_signature(rc, err), detail='driver exit %s after completing all scenarios: %s' % (rc, err[-1500:]), op_index=-1, ops=[]))
            break
        # the first unfinished scenario is the culprit (crash / hang); isolate it
        ci, cs = rest[0]
        rc2, out2, err2, to2 = run_driver(exe, scen_text(ci, cs[0], leak=leak), 60, unbuf=True)
        p2, _ = oracle.parse_scenarios(out2)
        if to2:
            rc3, out3, err3, to3 = run_driver(exe, scen_text(ci, cs[0], leak=leak), 60, unbuf=True)
            if to3:
                res.violations.append(dict(aspect='hang', key='hang', detail='scenario does not terminate (60 s, twice, alone)', op_index=len(p2.get(ci, {}).get('ops', [])) - 1, ops=cs[0]))
            else:
                res.inconclusive.append('watchdog fired once on scenario %d' % ci)
        elif rc2 != 0 or ci not in p2 or not p2[ci]['ended']:
            sig = crash_signature(rc2, err2)
            nrec = len(p2.get(ci, {}).get('ops', []))
            res.violations.append(dict(aspect='crash', key='crash|' + sig, detail='driver died (%s) at op %d: %s' % (sig, nrec - 1, err2[:3000]), op_index=nrec - 1, ops=cs[0]))
        else:
            # ran fine alone: the batch death was a batch effect (should not happen); treat as inconclusive once
            v = check_scenario(prop, cs[0], cs[1], cs[2], p2[ci], res, meta, ci)
            for x in v:
                x['ops'] = cs[0]
                res.violations.append(x)
            if timed_out:
                # the batch as a whole hit its wall-clock watchdog (a loaded machine); every scenario of it is still run
                # and compared - the rest of the batch continues below - so nothing is lost and nothing is concluded from it
                res.cut_reasons['(batch watchdog, batch continued)'] = res.cut_reasons.get('(batch watchdog, batch continued)', 0) + 1
            else:
                res.inconclusive.append('scenario %d failed in batch (rc=%s) but not alone' % (ci, rc))
        pending = rest[1:]


KEEP_TAGS = None   # set by run_plan in the parent and passed to the workers


def tally(res, ops, preds, cut_at, h):
    res.evaluations += 1
    res.ops += len(ops)
    if cut_at is not None:
        res.cuts += 1
        r = re.sub(r'\[.*?\]|\d+', '#', preds[cut_at].cut or '')
        res.cut_reasons[r] = res.cut_reasons.get(r, 0) + 1
    trig = set()
    for i, (op, pr) in enumerate(zip(ops, preds)):
        res.ops_by_kind[op[0]] = res.ops_by_kind.get(op[0], 0) + 1
        if cut_at is None or i <= cut_at:
            trig |= pr.trig
            if op[0] in ('call', 'callx', 'callu'):
                k = 'accepted' if pr.accepted else (pr.reports[0]['kind'] if pr.reports else 'other')
                res.calls[k] = res.calls.get(k, 0) + 1
    for t in trig:
        res.trig_counts[t] = res.trig_counts.get(t, 0) + 1
        if KEEP_TAGS is None or t in KEEP_TAGS:
            res.trig_hashes.setdefault(t, set()).add(h)


def worker(args):
    try:
        return _worker(args)
    except Exception:
        r = Result()
        r.inconclusive.append('worker exception: ' + traceback.format_exc()[-6000:])
        return r


def _worker(args):
    global KEEP_TAGS
    prop, exe, metapath, spec, seed, chunk, count, batch, keep = args
    KEEP_TAGS = keep
    meta = json.load(open(metapath))
    res = Result()
    rng = random.Random((seed * 1000003 + chunk * 7919 + zlib.crc32(repr(spec).encode()) % 1000) & 0xffffffff)
    kind = spec[0]
    if kind == 'random':
        from . import plans
        g = gens.RandomGen(meta, plans.PROFILES[spec[1]])
        src = (g.scenario(rng) for _ in range(count))
    else:
        from . import exh
        src = exh.enumerate_chunk(meta, spec, chunk, count)
    cur = []
    for ops, preds, cut_at in src:
        h = gens.scenario_hash(ops)
        tally(res, ops, preds, cut_at, h)
        sk = '%s:%s' % (spec[0], spec[1])
        res.by_spec[sk] = res.by_spec.get(sk, 0) + 1
        if len(res.samples) < 2 and len(ops) > 6:
            res.samples.append([model.op_to_line(o) for o in ops])
        cur.append((ops, preds, cut_at, h))
        if len(cur) >= batch:
            run_batch(prop, exe, meta, cur, res)
            cur = []
        if len(res.violations) > 20:
            break
    if cur:
        run_batch(prop, exe, meta, cur, res)
    return res


def run_plan(prop, plan, seed, config='asan', jobs=None, keep=None):
    """plan: list of (spec, count, nchunks). Returns merged Result."""
    exe, meta = build_driver(config)
    metapath = os.path.join(os.path.dirname(exe), 'src', 'shapes.json')
    jobs = jobs or build.NCPU
    tasks = []
    for spec, count, nchunks in plan:
        per = max(1, count // nchunks) if spec[0] == 'random' else count
        for c in range(nchunks):
            tasks.append((prop, exe, metapath, spec, seed, c, per, 150, keep))
    total = Result()
    with Pool(min(jobs, len(tasks))) as pool:
        for r in pool.imap_unordered(worker, tasks):
            total.merge(r)
    return total, meta


def legal(meta, ops, upto=None, two_monitors=False):
    """Replay ops through the model and check the generator's territory rules. Returns preds or None."""
    m = model.Model(meta)
    preds = []
    live_slots, live_sites, owner = set(), set(), {}
    used_defer, reserved = set(), set()
    try:
        for i, op in enumerate(ops):
            k = op[0]
            if k == 'exp':
                key = (op[2], op[3])
                if key in live_slots or op[1] in m.exps:
                    return None
                if op[4] not in m.objs:
                    return None
                sh = m.shapes[op[2]]
                ob = m.objs[op[4]]
                if (sh['cls'] == 'N') != (ob.kind == 'N') or ob.kind == 'P':
                    return None
                p = op[5]
                for j in range(sh['nq']):
                    if p.get('s%d' % j) not in m.seqs:
                        return None
                if sh['nq'] == 2 and p['s0'] == p['s1']:
                    return None
                for j in range(3):
                    if p.get('se%d' % j) == 2 and (p.get('nobj') not in m.objs or m.objs[p['nobj']].kind not in 'MW' or p['nobj'] == op[4] or sh['fn'] in ('v', 'r')):
                        return None
                    if p.get('se%d' % j) == 3 and (p.get('nobj') not in m.objs or m.objs[p['nobj']].kind not in 'MW' or sh['fn'] in ('gs', 'r')):
                        return None
                    if p.get('nfn') not in (None, 0, 1) or (p.get('nfn') == 1 and (sh['fn'] != 'f' or 3 not in [p.get('se%d' % x) for x in range(3)])):
                        return None
                    if p.get('se%d' % j) == 5 and (p.get('nobj') != op[4] or sh['fn'] == 'r'):
                        return None
                modes = [p.get('se%d' % j) for j in range(3)]
                if 5 in modes and (modes.count(5) > 1 or 2 in modes or 3 in modes):
                    return None
                if 6 in modes and (modes.count(6) > 1 or 2 in modes or 3 in modes or 5 in modes or sh['fn'] in ('v', 'r') or p.get('dop') not in m.deferred):
                    return None
                if 6 in modes and any(e.p.get('dop') == p.get('dop') for e in m.exps.values() if not e.is_mon):
                    return None
                # an object that a side effect will destroy is never the target of a nested call, and the other way round
                doomed = {e.p['nobj'] for e in m.exps.values() if not e.is_mon and any(e.p.get('se%d' % j) == 5 for j in range(3))}
                nested_into = {e.p['nobj'] for e in m.exps.values() if not e.is_mon and any(e.p.get('se%d' % j) in (2, 3) for j in range(3))}
                if 5 in modes and op[4] in nested_into:
                    return None
                if (2 in modes or 3 in modes) and p.get('nobj') in doomed:
                    return None
                live_slots.add(key)
                owner[op[1]] = key
            elif k == 'mon':
                if op[2] in live_sites or op[1] in m.exps or op[3] not in m.objs:
                    return None
                ob = m.objs[op[3]]
                if ob.kind != m.sites[op[2]]['cls'] or (ob.mons and not two_monitors):
                    return None
                if len(op) - 4 != m.sites[op[2]]['nseq'] or any(s not in m.seqs for s in op[4:]):
                    return None
                if len(set(op[4:])) != len(op[4:]):
                    return None
                live_sites.add(op[2])
                owner[op[1]] = ('site', op[2])
            elif k in ('rmexp', 'rmexpx', 'rmexpc'):
                if op[1] not in m.exps:
                    return None
                key = owner.pop(op[1], None)
                if key and key[0] == 'site':
                    live_sites.discard(key[1])
                elif key:
                    live_slots.discard(key)
            elif k in ('obj', 'seq', 'tr'):
                if op[1] in m.objs or op[1] in m.seqs or op[1] in m.husks:
                    return None
            elif k in ('mvobj', 'cpobj', 'cpobjc'):
                if op[1] in m.objs or op[2] not in m.objs:
                    return None
                kind = m.objs[op[2]].kind
                if k in ('cpobj', 'cpobjc') and kind != 'P':
                    return None
                if kind == 'N':
                    return None
            elif k in ('asobj', 'asmv'):
                if op[1] not in m.objs or op[2] not in m.objs or m.objs[op[1]].kind != 'P' or m.objs[op[2]].kind != 'P':
                    return None
            elif k in ('rmobj', 'rmobjx', 'rmobjc'):
                if op[1] not in m.objs:
                    return None
                for e in m.exps.values():
                    if not e.is_mon and any(e.p.get('se%d' % j) in (2, 3, 5) for j in range(3)) and e.p.get('nobj') == op[1]:
                        return None
            elif k == 'rmseq':
                if op[1] not in m.seqs and op[1] not in m.husks:
                    return None
            elif k == 'qseq':
                if op[1] not in m.seqs:
                    return None
            elif k == 'mvseq':
                if op[1] in m.objs or op[1] in m.seqs or op[1] in m.husks or op[1] in m.exps or op[2] not in m.seqs:
                    return None
            elif k == 'asseq':
                if (op[1] not in m.seqs and op[1] not in m.husks) or op[2] not in m.seqs or op[1] == op[2]:
                    return None
            elif k in ('call', 'callx', 'callu'):
                if op[1] not in m.objs:
                    return None
                ob = m.objs[op[1]]
                if ob.kind == 'P' or (ob.kind == 'N' and op[2] not in ('f', 'v')):
                    return None
            elif k == 'rmtr':
                if not m.tracers or m.tracers[-1][0] != op[1]:
                    return None
            elif k == 'setp':
                if op[1] not in m.exps:
                    return None
            elif k == 'defer':
                if op[1] in m.deferred or op[1] in used_defer:
                    return None
                used_defer.add(op[1])
                d = op[2:]
                if d[0] == 'rmexp':
                    if d[1] not in m.exps:
                        return None
                elif d[0] == 'exp':
                    # the slot and the id are reserved from now on
                    key = (d[2], d[3])
                    if key in live_slots or d[1] in m.exps or d[1] in owner or d[4] not in m.objs:
                        return None
                    sh = m.shapes[d[2]]
                    ob = m.objs[d[4]]
                    if (sh['cls'] == 'N') != (ob.kind == 'N') or ob.kind == 'P':
                        return None
                    p = d[5]
                    if any(p.get('se%d' % j) for j in range(3)):
                        return None              # the created expectation has plain side effects
                    if sh['rt'] and p.get('hi', 1) != -1 and p.get('lo', 1) > p.get('hi', 1) and sh['lim'] == 'rt':
                        return None
                    for j in range(sh['nq']):
                        if p.get('s%d' % j) not in m.seqs:
                            return None
                    if sh['nq'] == 2 and p['s0'] == p['s1']:
                        return None
                    live_slots.add(key)
                    owner[d[1]] = key
                    reserved.add(d[1])
                else:
                    return None
            preds.append(m.apply(op))
            if m.illegal:
                return None
            # expectations that came or went inside a call (deferred operations of side effects)
            reserved &= {d[1] for d in m.deferred.values() if d[0] == 'exp'}
            for eid in list(owner):
                if eid not in m.exps and eid not in reserved and preds[-1].op[0] in ('call', 'callx', 'callu'):
                    key = owner.pop(eid)
                    if key and key[0] == 'site':
                        live_sites.discard(key[1])
                    elif key:
                        live_slots.discard(key)
    except (KeyError, AssertionError, ValueError, IndexError):
        return None
    return preds


def shrink(prop, exe, meta, ops, aspect, budget=400):
    """Delta-debug a violating scenario: drop operations while a violation of the same aspect remains."""
    def fails(cand):
        preds = legal(meta, cand)
        if preds is None:
            return False
        cut = None
        for i, pr in enumerate(preds):
            if pr.cut:
                cut = i
                break
        res = Result()
        run_batch(prop, exe, meta, [(cand, preds, cut, 0)], res, timeout=60)
        for x in res.violations:
            if x['aspect'] == aspect:
                return x
        return False
    cur = list(ops)
    best = fails(cur)
    if not best:
        return None, None
    n = 0
    changed = True
    while changed and n < budget:
        changed = False
        i = len(cur) - 1
        while i >= 0 and n < budget:
            cand = cur[:i] + cur[i + 1:]
            n += 1
            r = fails(cand)
            if r:
                cur, best, changed = cand, r, True
            i -= 1
    return cur, best


def parse_ops(meta, lines):
    """Parse op lines (as written in witnesses / probes). A shape may be given by core name."""
    core = {s['core']: s['id'] for s in meta['shapes'] if s['core']}
    ops = []
    for ln in lines:
        t = ln.split()
        if not t:
            continue
        if t[0] == 'defer':
            inner = parse_ops(meta, [' '.join(t[2:])])[0]
            ops.append(('defer', int(t[1])) + tuple(inner))
            continue
        if t[0] == 'exp':
            sh = int(t[2]) if t[2].lstrip('-').isdigit() else core[t[2]]
            params = {}
            for kv in t[5:]:
                k, val = kv.split('=')
                params[k] = int(val)
            ops.append(('exp', int(t[1]), sh, int(t[3]), int(t[4]), params))
        else:
            ops.append(tuple(int(x) if x.lstrip('-').isdigit() else x for x in t))
    return ops


def run_literal(prop, exe, meta, ops, res, two_monitors=False):
    preds = legal(meta, ops, two_monitors=two_monitors)
    if preds is None:
        res.inconclusive.append('literal scenario is not legal for the current shape table')
        return
    cut = None
    for i, pr in enumerate(preds):
        if pr.cut:
            cut = i
            break
    tally(res, ops, preds, cut, gens.scenario_hash(ops))
    run_batch(prop, exe, meta, [(ops, preds, cut, 0)], res)
