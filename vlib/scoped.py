"""Fixed mini-scenes for the scoped (anonymous) macro forms REQUIRE_CALL / ALLOW_CALL /
FORBID_CALL / REQUIRE_DESTRUCTION: lifetimes are C++ scopes instead of NAMED_ objects.
Run-time arguments make the scenes a small family; the expected log is computed here."""
from . import genprog, build

SRC = r'''// scoped forms (vlib/scoped.py)
#include "gen_common.hpp"
#include <memory>
struct MockS
{
  virtual ~MockS() = default;
  MAKE_MOCK1(f, int(int));
  MAKE_MOCK0(v, void());
};
struct PlainS { virtual ~PlainS() = default; };
static int call_f(MockS& m, int a)
{
  size_t n0 = G::reports().size();
  try { int r = m.f(a); return r; }
  catch (Fatal const&) { return -1 - static_cast<int>(G::reports().size() - n0); }   // -2 = exactly one fatal report
}
static void dump(char const* tag, size_t from)
{
  for (size_t i = from; i < G::reports().size(); ++i)
  {
    auto const& r = G::reports()[i];
    char const* kind = r.msg.find("Unfulfilled") != std::string::npos ? "unfulfilled"
                     : r.msg.find("Pending") != std::string::npos ? "pending"
                     : r.msg.find("still alive") != std::string::npos ? "alive"
                     : r.msg.find("Unexpected destruction") != std::string::npos ? "unexpected"
                     : r.msg.find("forbidden") != std::string::npos ? "forbidden"
                     : r.msg.find("No match") != std::string::npos ? "nomatch" : "other";
    G::out("S %s %s %s", tag, r.fatal ? "F" : "N", kind);
  }
}
static void scene(int a, int b, int ncalls)
{
  G::out("S scene %d %d %d", a, b, ncalls);
  G::reports().clear();
  {
    MockS m;
    ALLOW_CALL(m, f(trompeloeil::_)).RETURN(9001);
    size_t n0 = G::reports().size();
    {
      REQUIRE_CALL(m, f(a)).RETURN(9002);
      FORBID_CALL(m, f(b));
      G::out("S r1 %d", call_f(m, a));          // a == b: the forbid is newer and wins
      G::out("S r2 %d", call_f(m, b));
      G::out("S r3 %d", call_f(m, a));          // REQUIRE_CALL saturated (if it was hit): falls to the ALLOW_CALL
    }
    dump("inner", n0);
    size_t n1 = G::reports().size();
    G::out("S r4 %d", call_f(m, a));            // inner expectations gone
    G::out("S r5 %d", call_f(m, b));
    dump("mid", n1);
    size_t n2 = G::reports().size();
    {
      REQUIRE_CALL(m, f(a)).RETURN(9003).TIMES(2);
      for (int i = 0; i < ncalls; ++i) G::out("S r6 %d", call_f(m, a));
    }
    dump("exit", n2);                            // scope exit: unfulfilled iff fewer than 2 calls
    size_t n3 = G::reports().size();
    {
      auto w = new trompeloeil::deathwatched<PlainS>;
      {
        REQUIRE_DESTRUCTION(*w);
        if (ncalls != 1) delete w;               // ncalls == 1: requirement ends first -> still alive
      }
      if (ncalls == 1) delete w;                 // ... and the later death is unexpected
    }
    dump("death", n3);
    size_t n3b = G::reports().size();
    {
      // the requirement held through a reference bound to the macro's result (lifetime extension of the temporary)
      auto w2 = new trompeloeil::deathwatched<PlainS>;
      auto&& req = NAMED_REQUIRE_DESTRUCTION(*w2);
      G::out("S refreq %d", req->is_satisfied() ? 1 : 0);
      delete w2;
      G::out("S refreq %d", req->is_satisfied() ? 1 : 0);
    }
    dump("refreq", n3b);
    size_t n4 = G::reports().size();
    {
      REQUIRE_CALL(m, v());                      // never called, mock dies first (end of enclosing scope)
      G::out("S pending-scope");
      if (ncalls == 0) { m.v(); }
    }
    dump("vexit", n4);
    size_t n5 = G::reports().size();
    {
      auto m2 = std::make_unique<MockS>();
      REQUIRE_CALL(*m2, v());
      m2.reset();                                // the mock dies first: pending report now, nothing at scope exit
      dump("mockfirst", n5);
      n5 = G::reports().size();
    }
    dump("after-mockfirst", n5);
  }
}
static void test_0()
{
  for (int a = 0; a < 2; ++a) for (int b = 0; b < 2; ++b) for (int n = 0; n < 4; ++n) scene(a, b, n);
}
static G::Reg reg_0(0, &test_0);
'''


def expected():
    out = []
    for a in range(2):
        for b in range(2):
            for n in range(4):
                out.append('S scene %d %d %d' % (a, b, n))
                if a == b:
                    out += ['S r1 -2', 'S r2 -2', 'S r3 -2']       # the newer FORBID_CALL is designated every time
                    req_hit = False
                else:
                    out += ['S r1 9002', 'S r2 -2', 'S r3 9001']   # saturated REQUIRE_CALL falls through to the ALLOW_CALL
                    req_hit = True
                if a == b:
                    out += ['S inner F forbidden'] * 3 + ['S inner N unfulfilled']   # never hit: reports at scope exit
                else:
                    out += ['S inner F forbidden']
                out += ['S r4 9001', 'S r5 9001']
                for i in range(n):
                    out.append('S r6 %d' % (9003 if i < 2 else 9001))
                if n < 2:
                    out.append('S exit N unfulfilled')
                if n == 1:
                    out += ['S death N alive', 'S death N unexpected']
                out += ['S refreq 0', 'S refreq 1']
                out.append('S pending-scope')
                if n != 0:
                    out.append('S vexit N unfulfilled')
                out.append('S mockfirst N pending')
    return out


def run(v, prop):
    """adds violations to verdict v; returns number of scene lines compared"""
    try:
        exe, _ = genprog.build_program('scoped', {'scoped.cpp': SRC})
    except build.BuildError as ex:
        v.inconclusive.append('scoped-forms program does not build: %s' % str(ex)[-1500:])
        return 0
    rc, out, err, to = genprog.run_program(exe, timeout=120)
    got = [l for l in out.split('\n') if l.startswith('S ')]
    # the inner REQUIRE_CALL that was never hit (a == b) reports at its scope exit, before r4: those reports are
    # dumped with tag "mid"? no - they occur before n1 is taken; they are checked by count below
    want = expected()
    if rc != 0 or to:
        from . import engine
        v.violation('scoped|crash|' + engine.crash_signature(rc, err), 'scoped-forms program died: %s' % err[:2000], dict(engine='scoped', stderr=err[:3000]))
        return 0
    if got != want:
        i = next((k for k in range(min(len(got), len(want))) if got[k] != want[k]), min(len(got), len(want)))
        v.violation('scoped|log', 'scoped forms: log differs at line %d: got %r, expected %r (context %s)' % (i, got[i] if i < len(got) else None, want[i] if i < len(want) else None, got[max(0, i - 6):i]),
                    dict(engine='scoped', got=got, expected=want))
    return len(want)
