"""Content-addressed build layer: every check rebuilds its drivers from /repo's *current*
working tree (hash of file contents, not mtimes) and reuses an earlier build only when
headers, driver sources, generator version and flags are all identical."""
import hashlib, os, subprocess, sys, time, fcntl, shutil, json
from concurrent.futures import ThreadPoolExecutor

VERIF = os.path.dirname(os.path.dirname(os.path.abspath(__file__)))
REPO = os.environ.get('VERIF_REPO', '/repo')
BUILD_ROOT = os.path.join(VERIF, 'build')
NCPU = int(os.environ.get('VERIF_JOBS', str(os.cpu_count() or 4)))

CONFIGS = {
    'asan': dict(cxx='g++', flags='-std=c++17 -O0 -g1 -fno-omit-frame-pointer -fsanitize=address,undefined '
                                  '-fno-sanitize-recover=all -DTROMPELOEIL_SANITY_CHECKS'),
    'asan14': dict(cxx='g++', flags='-std=c++14 -O0 -g1 -fno-omit-frame-pointer -fsanitize=address,undefined '
                                    '-fno-sanitize-recover=all -DTROMPELOEIL_SANITY_CHECKS'),
    'asanO1': dict(cxx='g++', flags='-std=c++17 -O1 -g1 -fno-omit-frame-pointer -fsanitize=address,undefined '
                                    '-fno-sanitize-recover=all -DTROMPELOEIL_SANITY_CHECKS'),
    'asan20': dict(cxx='g++', flags='-std=c++20 -O0 -g1 -fno-omit-frame-pointer -fsanitize=address,undefined '
                                    '-fno-sanitize-recover=all -DTROMPELOEIL_SANITY_CHECKS'),
    'clang-asan': dict(cxx='clang++-14', flags='-std=c++17 -O0 -g1 -fno-omit-frame-pointer -fsanitize=address,undefined '
                                               '-fno-sanitize=object-size -fno-sanitize-recover=all -DTROMPELOEIL_SANITY_CHECKS'),
    'tsan': dict(cxx='g++', flags='-std=c++17 -O1 -g1 -fno-omit-frame-pointer -fsanitize=thread'),
    'tsan-cm': dict(cxx='g++', flags='-std=c++17 -O1 -g1 -fno-omit-frame-pointer -fsanitize=thread '
                                     '-DTROMPELOEIL_CUSTOM_RECURSIVE_MUTEX'),
    'plain': dict(cxx='g++', flags='-std=c++17 -O0 -g1'),
}


def _hash_files(h, paths):
    for p in sorted(paths):
        h.update(p.encode())
        with open(p, 'rb') as f:
            h.update(hashlib.sha256(f.read()).digest())


def include_files():
    out = []
    inc = os.path.join(REPO, 'include')
    for root, dirs, files in os.walk(inc):
        for fn in files:
            out.append(os.path.join(root, fn))
    return out


_tree_hash = None


def tree_hash():
    global _tree_hash
    if _tree_hash is None:
        h = hashlib.sha256()
        _hash_files(h, include_files())
        _tree_hash = h.hexdigest()[:16]
    return _tree_hash


class BuildError(Exception):
    pass


def _run(cmd, cwd=None):
    p = subprocess.run(cmd, cwd=cwd, stdout=subprocess.PIPE, stderr=subprocess.STDOUT, text=True)
    return p.returncode, p.stdout


def prune(keep=4):
    if not os.path.isdir(BUILD_ROOT):
        return
    ents = []
    for d in os.listdir(BUILD_ROOT):
        p = os.path.join(BUILD_ROOT, d)
        if os.path.isdir(p):
            ents.append((os.path.getmtime(p), p))
    ents.sort(reverse=True)
    for _, p in ents[keep:]:
        shutil.rmtree(p, ignore_errors=True)


def build(name, config, sources, gen=None, extra_flags='', link_flags='', extra_hash=''):
    """Build executable `name` in configuration `config`.
    sources: list of absolute paths of hand-written sources (their dir is an include dir).
    gen: optional callable(srcdir) -> list of generated source file names inside srcdir.
    Returns (exe_path, builddir)."""
    cfg = CONFIGS[config]
    h = hashlib.sha256()
    h.update(tree_hash().encode())
    h.update(json.dumps(cfg, sort_keys=True).encode())
    h.update(extra_flags.encode()); h.update(link_flags.encode()); h.update(extra_hash.encode())
    _hash_files(h, sources)
    incdirs = sorted(set(os.path.dirname(s) for s in sources))
    for d in incdirs:
        _hash_files(h, [os.path.join(d, f) for f in os.listdir(d) if f.endswith(('.hpp', '.h'))])
    key = h.hexdigest()[:16]
    bdir = os.path.join(BUILD_ROOT, tree_hash(), '%s-%s-%s' % (name, config, key))
    exe = os.path.join(bdir, name)
    stamp = os.path.join(bdir, 'OK')
    if os.path.exists(stamp):
        os.utime(os.path.join(BUILD_ROOT, tree_hash()), None)
        return exe, bdir
    os.makedirs(bdir, exist_ok=True)
    lockf = open(os.path.join(bdir, '.lock'), 'w')
    fcntl.flock(lockf, fcntl.LOCK_EX)
    try:
        if os.path.exists(stamp):
            return exe, bdir
        t0 = time.time()
        srcdir = os.path.join(bdir, 'src')
        os.makedirs(srcdir, exist_ok=True)
        gens = gen(srcdir) if gen else []
        units = list(sources) + [os.path.join(srcdir, g) for g in gens]
        inc = ' '.join('-I' + d for d in incdirs) + ' -I' + os.path.join(REPO, 'include')
        objs = []
        jobs = []
        for u in units:
            o = os.path.join(bdir, os.path.basename(u) + '.o')
            objs.append(o)
            jobs.append((u, '%s %s %s %s -c %s -o %s' % (cfg['cxx'], cfg['flags'], extra_flags, inc, u, o)))

        def comp(job):
            u, cmd = job
            rc, out = _run(cmd.split())
            return u, rc, out
        with ThreadPoolExecutor(max_workers=NCPU) as ex:
            res = list(ex.map(comp, jobs))
        for u, rc, out in res:
            if rc != 0:
                raise BuildError('compile failed: %s\n%s' % (u, out[-4000:]))
        rc, out = _run(('%s %s %s -o %s %s' % (cfg['cxx'], cfg['flags'], ' '.join(objs), exe, link_flags)).split())
        if rc != 0:
            raise BuildError('link failed: %s\n%s' % (name, out[-4000:]))
        for o in objs:
            try:
                os.unlink(o)
            except OSError:
                pass
        with open(stamp, 'w') as f:
            f.write('%.1f\n' % (time.time() - t0))
        prune()
        return exe, bdir
    finally:
        fcntl.flock(lockf, fcntl.LOCK_UN)
        lockf.close()
