"""Helper for checks that generate self-reporting C++ programs: write the sources, build
them (content-addressed cache), run the executable under the sanitizers, return its output."""
import hashlib, os, subprocess
from . import build

ASAN_ENV = {
    'ASAN_OPTIONS': 'abort_on_error=1:detect_leaks=1:detect_stack_use_after_return=1',
    'UBSAN_OPTIONS': 'print_stacktrace=1:halt_on_error=1',
}

COMMON_DIR = os.path.join(build.VERIF, 'drivers', 'gen')


def build_program(name, files, config='asan', extra_flags='', link_flags=''):
    """files: dict filename -> content (generated). Returns exe path."""
    h = hashlib.sha256()
    for fn in sorted(files):
        h.update(fn.encode()); h.update(files[fn].encode())

    def gen(srcdir):
        for fn, content in files.items():
            with open(os.path.join(srcdir, fn), 'w') as f:
                f.write(content)
        return [fn for fn in sorted(files) if fn.endswith('.cpp')]
    common = [os.path.join(COMMON_DIR, 'common.cpp')]
    exe, bdir = build.build(name, config, common, gen=gen, extra_hash=h.hexdigest(), extra_flags=extra_flags, link_flags=link_flags)
    return exe, bdir


def run_program(exe, args=(), timeout=600, env_extra=None, stdin=None):
    env = dict(os.environ)
    env.update(ASAN_ENV)
    if env_extra:
        env.update(env_extra)
    try:
        p = subprocess.run([exe] + list(args), input=stdin, stdout=subprocess.PIPE, stderr=subprocess.PIPE, env=env, timeout=timeout)
        return p.returncode, p.stdout.decode('latin-1'), p.stderr.decode('latin-1'), False
    except subprocess.TimeoutExpired as ex:
        return -9, (ex.stdout or b'').decode('latin-1'), (ex.stderr or b'').decode('latin-1'), True


def compiling_forms(name, header, forms, std='c++17'):
    """forms: dict id -> source text of one test. Each is compiled alone (-fsyntax-only, no sanitizer);
    returns (set of ids that compile, dict id -> first error line). Results are cached per tree hash."""
    import json
    from concurrent.futures import ThreadPoolExecutor
    cdir = os.path.join(build.BUILD_ROOT, build.tree_hash(), 'forms-' + name)
    os.makedirs(cdir, exist_ok=True)
    cache_file = os.path.join(cdir, 'cache.json')
    cache = {}
    if os.path.exists(cache_file):
        try:
            cache = json.load(open(cache_file))
        except Exception:
            cache = {}
    todo = []
    keys = {}
    for fid, src in forms.items():
        k = hashlib.sha256((header + src + std).encode()).hexdigest()[:20]
        keys[fid] = k
        if k not in cache:
            todo.append((fid, k, src))

    def comp(job):
        fid, k, src = job
        path = os.path.join(cdir, 'f_%s.cpp' % k)
        with open(path, 'w') as f:
            f.write(header + '\n' + src + '\n')
        p = subprocess.run(['g++', '-std=' + std, '-fsyntax-only', '-I' + COMMON_DIR, '-I' + os.path.join(build.REPO, 'include'), path],
                           stdout=subprocess.PIPE, stderr=subprocess.STDOUT, text=True)
        os.unlink(path)
        err = ''
        if p.returncode:
            for ln in p.stdout.split('\n'):
                if 'error' in ln:
                    err = ln[-300:]
                    break
        return k, p.returncode == 0, err
    if todo:
        with ThreadPoolExecutor(max_workers=build.NCPU) as ex:
            for k, ok, err in ex.map(comp, todo):
                cache[k] = [ok, err]
        with open(cache_file, 'w') as f:
            json.dump(cache, f)
    good = {fid for fid, k in keys.items() if cache[k][0]}
    bad = {fid: cache[k][1] for fid, k in keys.items() if not cache[k][0]}
    return good, bad
