"""C17 scene for what the scenario engine's int-only functions cannot show: trace records of
functions that take and return class-type values (std::string, std::vector, std::pair) by value,
by const reference and from rvalue RETURN expressions (computed temporaries, std::move(_1)),
of tracers that come and go while a call is in progress, and of calls that leave by exception.
Each record is recorded by a tracer object of the program and printed; the expected records are
computed here from the arguments."""
from . import genprog, build

SRC = r'''// traced values (vlib/tracevals.py)
#include "gen_common.hpp"
#include <memory>
#include <string>
#include <utility>
#include <vector>
namespace {
struct Rec : trompeloeil::tracer
{
  explicit Rec(int id_) : id(id_) {}
  void trace(char const* file, unsigned long line, std::string const& call) override
  {
    std::string f = file; auto p = f.rfind('/'); if (p != std::string::npos) f = f.substr(p + 1);
    G::out("T %d %s %lu %s", id, f.c_str(), line, G::esc(call).c_str());
  }
  int id;
};
using PairIS = std::pair<int, std::string>;
struct MockT
{
  virtual ~MockT() = default;
  MAKE_MOCK1(s1, std::string(std::string));
  MAKE_MOCK1(sc, std::string(std::string const&));
  MAKE_MOCK1(sr, std::string const&(std::string const&));
  MAKE_MOCK1(vec, std::vector<int>(int));
  MAKE_MOCK2(pr, PairIS(int, std::string const&));
  MAKE_MOCK1(vv, std::vector<std::string>(std::vector<std::string>));
  MAKE_MOCK1(nest, int(int));
  MAKE_MOCK1(thr, int(int));
  MAKE_MOCK2(bin, int(std::string const&, int));
  MAKE_MOCK1(nsp, std::shared_ptr<int>(int));
  MAKE_MOCK1(ncs, char const*(int));
  MAKE_MOCK1(nup, std::unique_ptr<int>(int));
};
std::unique_ptr<Rec> g_inner;
}
static void test_0()
{
  G::reports().clear();
  MockT m;
  std::string keep = "kept";
  for (int round = 0; round < 3; ++round)
  {
    G::out("S round %d", round);
    Rec outer(1);
    std::string a = std::string("r") + std::to_string(round);
    {
      REQUIRE_CALL(m, s1(trompeloeil::_)).RETURN(_1 + "|" + _1);                     G::out("L s1a %d", __LINE__);
      G::out("V %s", G::esc(m.s1(a)).c_str());
    }
    {
      REQUIRE_CALL(m, s1(trompeloeil::_)).RETURN(std::move(_1));                      G::out("L s1m %d", __LINE__);
      G::out("V %s", G::esc(m.s1(a + "mv")).c_str());
    }
    {
      REQUIRE_CALL(m, s1(trompeloeil::_)).RETURN("lit");                              G::out("L s1l %d", __LINE__);
      G::out("V %s", G::esc(m.s1(a)).c_str());
    }
    {
      REQUIRE_CALL(m, sc(trompeloeil::_)).RETURN(std::string(_1.rbegin(), _1.rend())); G::out("L sc %d", __LINE__);
      G::out("V %s", G::esc(m.sc(a + "x")).c_str());
    }
    {
      REQUIRE_CALL(m, sc(trompeloeil::_)).LR_RETURN(keep);                            G::out("L sck %d", __LINE__);
      G::out("V %s", G::esc(m.sc(a)).c_str());
      G::out("V keep %s", keep.c_str());
    }
    {
      REQUIRE_CALL(m, sr(trompeloeil::_)).RETURN(_1);                                 G::out("L sr %d", __LINE__);
      std::string const& r = m.sr(a);
      G::out("V %s %d", G::esc(r).c_str(), &r == &a ? 1 : 0);
    }
    {
      REQUIRE_CALL(m, vec(trompeloeil::_)).RETURN(std::vector<int>(static_cast<size_t>(_1), _1)); G::out("L vec %d", __LINE__);
      auto v = m.vec(round);
      G::out("V %zu", v.size());
    }
    {
      REQUIRE_CALL(m, pr(trompeloeil::_, trompeloeil::_)).RETURN(std::make_pair(_1 + 1, _2 + "!")); G::out("L pr %d", __LINE__);
      auto p = m.pr(round, a);
      G::out("V %d %s", p.first, G::esc(p.second).c_str());
    }
    {
      REQUIRE_CALL(m, vv(trompeloeil::_)).RETURN(std::move(_1));                      G::out("L vv %d", __LINE__);
      std::vector<std::string> in{a, "", "z z"};
      auto v = m.vv(in);
      G::out("V %zu %s", v.size(), G::esc(v.empty() ? std::string("-") : v[0]).c_str());
    }
    {
      // a tracer constructed while the call is in progress (and properly destroyed before the older one):
      // the call is still traced exactly once
      REQUIRE_CALL(m, nest(trompeloeil::_)).LR_SIDE_EFFECT(g_inner = std::make_unique<Rec>(2)).RETURN(_1 * 2); G::out("L nest %d", __LINE__);
      G::out("V %d", m.nest(round + 5));
      {
        REQUIRE_CALL(m, nest(trompeloeil::_)).RETURN(_1 * 3);                         G::out("L nest2 %d", __LINE__);
        G::out("V %d", m.nest(round));                                                // goes to the inner tracer
      }
      g_inner.reset();
      {
        REQUIRE_CALL(m, nest(trompeloeil::_)).RETURN(_1 * 4);                         G::out("L nest3 %d", __LINE__);
        G::out("V %d", m.nest(round));                                                // outer again
      }
    }
    {
      // a plain RETURN of a captured class-type local, from a function returning a reference: the reference is to the
      // expectation's own copy, the same object on every call, alive as long as the expectation; a plain RETURN cannot
      // move from its copy either (it is const), so every call yields the creation-time value
      std::string loc = "captured-" + a + "-long-enough-to-leave-the-small-buffer";
      int ln1, ln2;
      auto e1 = NAMED_ALLOW_CALL(m, sr(trompeloeil::_)).RETURN(loc); ln1 = __LINE__;
      auto e2 = NAMED_ALLOW_CALL(m, s1(trompeloeil::_)).RETURN(std::move(loc) + "!"); ln2 = __LINE__;
      std::string want = loc;
      loc = "changed";
      G::out("L srk %d", ln1);
      std::string const& r1 = m.sr(a); std::string const* p1 = &r1; std::string v1 = r1;
      G::out("V %d", v1 == want ? 1 : 0);
      G::out("L srk2 %d", ln1);
      std::string const& r2 = m.sr(a);
      G::out("V %d %d %d", &r2 == p1 ? 1 : 0, r2 == want ? 1 : 0, *p1 == want ? 1 : 0);
      G::out("L mv1 %d", ln2);
      G::out("V %d", m.s1(a) == want + "!" ? 1 : 0);
      G::out("L mv2 %d", ln2);
      G::out("V %d", m.s1(a) == want + "!" ? 1 : 0);
    }
    {
      // typed null results: the record says nullptr (and nothing is dereferenced)
      REQUIRE_CALL(m, nsp(trompeloeil::_)).RETURN(std::shared_ptr<int>());                      G::out("L nsp %d", __LINE__);
      G::out("V %d", m.nsp(round) ? 1 : 0);
    }
    {
      REQUIRE_CALL(m, ncs(trompeloeil::_)).RETURN(static_cast<char const*>(nullptr));           G::out("L ncs %d", __LINE__);
      G::out("V %d", m.ncs(round) ? 1 : 0);
    }
    {
      REQUIRE_CALL(m, nup(trompeloeil::_)).RETURN(std::unique_ptr<int>());                      G::out("L nup %d", __LINE__);
      G::out("V %d", m.nup(round) ? 1 : 0);
    }
    {
      // an argument with an embedded NUL: what follows it (the rest of the value, the other arguments, the result) is part of the record
      REQUIRE_CALL(m, bin(trompeloeil::_, trompeloeil::_)).RETURN(_2 + 1);                      G::out("L bin %d", __LINE__);
      std::string z = a; z.push_back(char(0)); z += "tail";
      G::out("V %d", m.bin(z, 40 + round));
    }
    {
      REQUIRE_CALL(m, thr(trompeloeil::_)).THROW(std::runtime_error("boom" + std::to_string(_1))).TIMES(2); G::out("L thr %d", __LINE__);
      for (int k = 0; k < 2; ++k)
      {
        try { m.thr(round * 10 + k); G::out("V noexc"); }
        catch (std::runtime_error const& e) { G::out("V exc %s", e.what()); }
      }
    }
  }
  G::out("S reports %zu", G::reports().size());
}
static G::Reg reg_0(0, &test_0);
'''


FUNC = {'s1a': 's1', 's1m': 's1', 's1l': 's1', 'sc': 'sc', 'sck': 'sc', 'sr': 'sr', 'vec': 'vec', 'pr': 'pr', 'vv': 'vv',
        'nest': 'nest', 'nest2': 'nest', 'nest3': 'nest', 'thr': 'thr', 'bin': 'bin', 'nsp': 'nsp', 'ncs': 'ncs', 'nup': 'nup', 'srk': 'sr', 'srk2': 'sr', 'mv1': 's1', 'mv2': 's1'}


def _vecs(xs):
    return '{ ' + ', '.join(xs) + ' }'


def expected_calls():
    """per round: list of (label, tracer id, expectation text fragment, [param values], result text, V line)"""
    out = []
    for rnd in range(3):
        a = 'r%d' % rnd
        c = []
        c.append(('s1a', 1, [a], '-> %s|%s' % (a, a), 'V %s|%s' % (a, a)))
        c.append(('s1m', 1, [a + 'mv'], '-> %smv' % a, 'V %smv' % a))
        c.append(('s1l', 1, [a], '-> lit', 'V lit'))
        c.append(('sc', 1, [a + 'x'], '-> %s' % (a + 'x')[::-1], 'V %s' % (a + 'x')[::-1]))
        c.append(('sck', 1, [a], '-> kept', 'V kept'))
        c.append(('sr', 1, [a], '-> %s' % a, 'V %s 1' % a))
        c.append(('vec', 1, [str(rnd)], '-> ' + _vecs([str(rnd)] * rnd), 'V %d' % rnd))
        c.append(('pr', 1, [str(rnd), a], '-> ' + _vecs([str(rnd + 1), a + '!']), 'V %d %s!' % (rnd + 1, a)))
        c.append(('vv', 1, [_vecs([a, '', 'z z'])], '-> ' + _vecs([a, '', 'z z']), 'V 3 %s' % a))
        cap = 'captured-%s-long-enough-to-leave-the-small-buffer' % a
        c.append(('srk', 1, [a], '-> ' + cap, 'V 1'))
        c.append(('srk2', 1, [a], '-> ' + cap, 'V 1 1 1'))
        c.append(('mv1', 1, [a], '-> ' + cap + '!', 'V 1'))
        c.append(('mv2', 1, [a], '-> ' + cap + '!', 'V 1'))
        for lab in ('nsp', 'ncs', 'nup'):
            c.append((lab, 1, [str(rnd)], '-> nullptr', 'V 0'))
        c.append(('bin', 1, [a + '\x00tail', str(40 + rnd)], '-> %d' % (41 + rnd), 'V %d' % (41 + rnd)))
        c.append(('nest', (1, 2), [str(rnd + 5)], '-> %d' % ((rnd + 5) * 2), 'V %d' % ((rnd + 5) * 2)))
        c.append(('nest2', 2, [str(rnd)], '-> %d' % (rnd * 3), 'V %d' % (rnd * 3)))
        c.append(('nest3', 1, [str(rnd)], '-> %d' % (rnd * 4), 'V %d' % (rnd * 4)))
        for k in range(2):
            n = rnd * 10 + k
            c.append(('thr', 1, [str(n)], 'threw exception: what() = boom%d' % n, 'V exc boom%d' % n))
        out.append(c)
    return out


from .oracle import unesc


def run(v, prop, traced=True):
    """adds violations to verdict v; returns the number of trace records (traced) / caller-side values (untraced) compared.
    traced=False: the same calls without any tracer - only what the caller receives is compared (C08)"""
    src = SRC if traced else SRC.replace('Rec outer(1);', '').replace('g_inner = std::make_unique<Rec>(2)', '(void)0')
    try:
        exe, _ = genprog.build_program('tracevals' if traced else 'retvals', {'tracevals.cpp': src})
    except build.BuildError as ex:
        v.inconclusive.append('traced-values program does not build: %s' % str(ex)[-1500:])
        return 0
    rc, out, err, to = genprog.run_program(exe, timeout=120)
    if rc != 0 or to:
        from . import engine
        v.violation('tracevals|crash|' + engine.crash_signature(rc, err), 'traced-values program died: %s' % err[:2000], dict(engine='tracevals', stderr=err[:3000]))
        return 0
    lines = [l for l in out.split('\n') if l[:2] in ('S ', 'T ', 'V ', 'L ')]
    # group: every call = optional L (label + line, printed after the expectation was created), then T records and V line(s)
    rounds = []
    for l in lines:
        if l.startswith('S round'):
            rounds.append([])
        elif rounds and not l.startswith('S '):
            rounds[-1].append(l)
    want = expected_calls()
    problems = []
    nrec = 0
    if len(rounds) != len(want):
        problems.append('expected %d rounds, program printed %d' % (len(want), len(rounds)))
    for rnd, (got, calls) in enumerate(zip(rounds, want)):
        # split got into segments per label
        segs = []
        for l in got:
            if l.startswith('L '):
                segs.append([l])
            elif segs:
                segs[-1].append(l)
        bylabel = {}
        for s in segs:
            _, lab, line = s[0].split()
            bylabel[lab] = (int(line), s[1:])
        seen_thr = 0
        for (lab, tid, params, result, vline) in calls:
            if lab not in bylabel:
                problems.append('round %d: no output for %s' % (rnd, lab))
                continue
            line, body = bylabel[lab]
            recs = [b for b in body if b.startswith('T ')]
            vals = [b for b in body if b.startswith('V ')]
            if lab == 'sck' and [unesc(x) for x in vals[1:2]] != ['V keep kept']:
                problems.append('round %d sck: the local named by LR_RETURN holds %r after the call, expected \'V keep kept\'' % (rnd, vals[1:2]))
            if not traced:
                nrec += 1
                val = [unesc(x) for x in (vals[seen_thr:seen_thr + 1] if lab == 'thr' else vals[:1])]
                if lab == 'thr':
                    seen_thr += 1
                if recs:
                    problems.append('round %d %s: trace record without a tracer' % (rnd, lab))
                if not val or val[0] != vline:
                    problems.append('round %d %s: caller observed %r, expected %r' % (rnd, lab, val[:1], vline))
                continue
            if lab == 'thr':
                rec = recs[seen_thr:seen_thr + 1]
                val = vals[seen_thr:seen_thr + 1]
                seen_thr += 1
                if seen_thr == 2 and len(recs) != 2:
                    problems.append('round %d %s: %d trace records for 2 accepted calls' % (rnd, lab, len(recs)))
            else:
                rec, val = recs, vals[:1]
                if len(recs) != 1:
                    problems.append('round %d %s: %d trace records for one accepted call: %r' % (rnd, lab, len(recs), recs))
            val = [unesc(x) for x in val]
            if not val or val[0] != vline:
                problems.append('round %d %s: caller observed %r, expected %r' % (rnd, lab, val[:1], vline))
            for r in rec[:1]:
                nrec += 1
                t = r.split(' ', 4)
                rid, rfile, rline, text = int(t[1]), t[2], int(t[3]), unesc(t[4])
                tids = tid if isinstance(tid, tuple) else (tid,)
                if rid not in tids:
                    problems.append('round %d %s: record delivered to tracer %d, expected %s' % (rnd, lab, rid, tids))
                if rfile != 'tracevals.cpp' or rline != line:
                    problems.append('round %d %s: record carries %s:%d, the expectation is at tracevals.cpp:%d' % (rnd, lab, rfile, rline, line))
                tl = [' '.join(x.split()) for x in text.split('\n') if x.strip()]
                if not tl or not tl[0].startswith('m.%s(' % FUNC[lab]) or not tl[0].endswith('with.'):
                    problems.append('round %d %s: record does not start with the expectation text: %r' % (rnd, lab, text))
                pl = [x for x in tl if x.startswith('param')]
                wantp = ['param _%d == %s' % (i + 1, ' '.join(p.split())) for i, p in enumerate(params)]
                # an empty string argument prints nothing after '='
                wantp = [w.rstrip() for w in wantp]
                if [x.rstrip() for x in pl] != wantp:
                    problems.append('round %d %s: parameters in the record %r, expected %r' % (rnd, lab, pl, wantp))
                if tl[-1] != ' '.join(result.split()):
                    problems.append('round %d %s: record ends with %r, expected %r' % (rnd, lab, tl[-1], result))
    tail = [l for l in lines if l.startswith('S reports')]
    if tail != ['S reports 0']:
        problems.append('violation reports during the scene: %r' % tail)
    if problems:
        v.violation('tracevals|log' if traced else 'retvals|log', ('traced values scene: ' if traced else 'class-type return values scene: ') + '; '.join(problems[:6]),
                    dict(engine='tracevals', problems=problems[:40], output=lines[:400]))
    return nrec
