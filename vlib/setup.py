"""MANIFEST.setup_cmd: create directories and pre-build the drivers for the current tree.
Checks rebuild on their own when /repo's headers change (content-hashed build cache)."""
import os, sys, time
from . import build, engine


def main():
    for d in ('out', 'evidence', 'build'):
        os.makedirs(os.path.join(build.VERIF, d), exist_ok=True)
    t = time.time()
    try:
        exe, _ = engine.build_driver('asan')
        print('built', exe, '%.0fs' % (time.time() - t))
    except build.BuildError as ex:
        print('setup: scenario driver does not build:', str(ex)[-2000:])
        return 1
    try:
        from . import setup_extra
        return setup_extra.main()
    except ImportError:
        return 0


if __name__ == '__main__':
    sys.exit(main())
