// known finding D11: coroutine-returning mock function with a parameter whose clauses run after the call returned
#include "gen_common.hpp"
#include <trompeloeil/coro.hpp>
#include "coro_types.hpp"
struct MockD11 { MAKE_MOCK1(t1, (Task<int, false>(int))); };
static void test_0() {
  MockD11 m;
  REQUIRE_CALL(m, t1(trompeloeil::_)).CO_RETURN(5);
  auto c = m.t1(3);        // lazy start: nothing evaluated yet, mock_func's parameter tuple is gone after this line
  c.resume();              // clause lambdas read the dead tuple
  G::out("D11 result %d", c.result());
}
static G::Reg reg_0(0, &test_0);
